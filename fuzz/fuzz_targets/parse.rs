#![no_main]
#![allow(dead_code, unused_imports)]
include!("common.rs");

libfuzzer_sys::fuzz_target!(|data: &[u8]| {
    sim::install_panic_hook();
    if let Err(v) = fuzzdec::run_bytes("parse", data) {
        report("parse", v);
    }
});
