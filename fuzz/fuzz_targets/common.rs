// Shared prelude of the fuzz targets: the repository's sources and the harness modules are
// compiled into each target by path, exactly as in /verif/harness.
#[allow(dead_code, unused_imports, unused_variables)]
#[path = "/repo/src/command.rs"]
mod command;
#[allow(dead_code, unused_imports, unused_variables)]
#[path = "/repo/src/config.rs"]
mod config;
#[allow(dead_code, unused_imports, unused_variables)]
#[path = "/repo/src/help.rs"]
mod help;
#[allow(dead_code, unused_imports, unused_variables)]
#[path = "/repo/src/reply.rs"]
mod reply;
#[allow(dead_code, unused_imports, unused_variables)]
#[path = "/repo/src/state/mod.rs"]
mod state;
#[allow(dead_code, unused_imports, unused_variables)]
#[path = "/repo/src/utils.rs"]
mod utils;

use command::*;
use config::*;
use state::*;
use utils::*;

#[path = "/verif/harness/src/cfgspec.rs"]
mod cfgspec;
#[path = "/verif/harness/src/checks/mod.rs"]
mod checks;
#[path = "/verif/harness/src/engine.rs"]
mod engine;
#[path = "/verif/harness/src/gen.rs"]
mod gen;
#[path = "/verif/harness/src/model.rs"]
mod model;
#[path = "/verif/harness/src/norm.rs"]
mod norm;
#[path = "/verif/harness/src/refglob.rs"]
mod refglob;
#[path = "/verif/harness/src/refparse.rs"]
mod refparse;
#[path = "/verif/harness/src/runner.rs"]
mod runner;
#[path = "/verif/harness/src/scenario.rs"]
mod scenario;
#[path = "/verif/harness/src/sim.rs"]
mod sim;
#[path = "/verif/harness/src/wire.rs"]
mod wire;
#[path = "/verif/harness/src/fuzzdec.rs"]
mod fuzzdec;

fn report(target: &str, v: runner::Viol) -> ! {
    eprintln!("FUZZ-VIOLATION target={} predicate={} : {}", target, v.predicate, v.explanation);
    for l in v.transcript.iter().take(40) {
        eprintln!("    {}", l);
    }
    std::process::abort();
}
