// Engine: runs a step on the SIM world and on the reference model and diffs what every
// connection observed against what the model allows.

use std::collections::BTreeMap;

use crate::cfgspec::{CfgSpec, SERVER_NAME};
use crate::model::{Expect, Model};
use crate::norm::{self, NL};
use crate::sim::{CloseKind, TaskEnd, World};

#[derive(Clone, Debug)]
pub enum Disc {
    Missing { conn: usize, line: NL },
    Extra { conn: usize, line: NL },
    AnyOf { conn: usize, set: Vec<NL> },
    UnexpectedClose { conn: usize },
    MissingClose { conn: usize },
    Panic { conn: Option<usize>, msg: String, loc: String },
    Framing { conn: usize, msg: String },
    Malformed { conn: usize, line: String },
    ServerQuit { expected: bool },
}

impl Disc {
    pub fn describe(&self) -> String {
        match self {
            Disc::Missing { conn, line } => format!("c{} did not receive: {}", conn, norm::show(line)),
            Disc::Extra { conn, line } => format!("c{} received unexpected: {}", conn, norm::show(line)),
            Disc::AnyOf { conn, set } => format!(
                "c{} received none of: {}",
                conn,
                set.iter().map(norm::show).collect::<Vec<_>>().join(" | ")
            ),
            Disc::UnexpectedClose { conn } => format!("c{} was closed by the server unexpectedly", conn),
            Disc::MissingClose { conn } => format!("c{} should have been closed by the server but is open", conn),
            Disc::Panic { conn, msg, loc } => format!("handler of c{:?} aborted: {} at {}", conn, msg, loc),
            Disc::Framing { conn, msg } => format!("c{} framing: {}", conn, msg),
            Disc::Malformed { conn, line } => format!("c{} received a line that does not parse: {:?}", conn, line),
            Disc::ServerQuit { expected } => format!("server quit signal: expected {}", expected),
        }
    }
    pub fn line(&self) -> Option<&NL> {
        match self {
            Disc::Missing { line, .. } | Disc::Extra { line, .. } => Some(line),
            _ => None,
        }
    }
    pub fn conn(&self) -> Option<usize> {
        match self {
            Disc::Missing { conn, .. }
            | Disc::Extra { conn, .. }
            | Disc::AnyOf { conn, .. }
            | Disc::UnexpectedClose { conn }
            | Disc::MissingClose { conn }
            | Disc::Framing { conn, .. }
            | Disc::Malformed { conn, .. } => Some(*conn),
            Disc::Panic { conn, .. } => *conn,
            Disc::ServerQuit { .. } => None,
        }
    }
    // is this discrepancy about a relayed line with the given command?
    pub fn is_relay(&self, cmds: &[&str]) -> bool {
        self.line().map_or(false, |l| l[0] != "S" && cmds.contains(&l[1].as_str()))
    }
    pub fn is_numeric(&self, codes: &[&str]) -> bool {
        match self {
            Disc::AnyOf { set, .. } => set.iter().any(|l| l[0] == "S" && codes.contains(&l[1].as_str())),
            _ => self.line().map_or(false, |l| l[0] == "S" && codes.contains(&l[1].as_str())),
        }
    }
}

pub struct StepOut {
    // verb of the generated operation this step belongs to (the op itself or its probes)
    pub ctx: String,
    // this step is a read-only probe issued by the engine after an operation
    pub is_probe: bool,
    pub actor: Option<usize>,
    pub sent: String,
    pub exp: Expect,
    pub obs: BTreeMap<usize, Vec<NL>>,
    pub raw: BTreeMap<usize, Vec<String>>,
    pub discs: Vec<Disc>,
    pub detached_panics: usize,
}

pub struct Engine {
    pub world: World,
    pub model: Model,
    pub log: Vec<String>,
    pub eof_known: Vec<bool>,
    pub self_closed: Vec<bool>,
    pub steps: usize,
    pub detached_panics: usize,
    pub quit_known: bool,
}

pub fn diff(exp: &Expect, obs: &BTreeMap<usize, Vec<NL>>, nconns: usize) -> Vec<Disc> {
    let mut out = vec![];
    for c in 0..nconns {
        let empty = vec![];
        let o = obs.get(&c).unwrap_or(&empty);
        let mut rest: Vec<NL> = o.clone();
        if let Some(must) = exp.must.get(&c) {
            for m in must {
                if let Some(p) = rest.iter().position(|x| x == m) {
                    rest.remove(p);
                } else {
                    out.push(Disc::Missing { conn: c, line: m.clone() });
                }
            }
        }
        for x in rest {
            let allowed = exp.optional.iter().any(|(oc, l)| *oc == c && *l == x)
                || exp.any_of.iter().any(|(oc, set)| *oc == c && set.contains(&x));
            if !allowed {
                out.push(Disc::Extra { conn: c, line: x });
            }
        }
        for (oc, set) in &exp.any_of {
            if *oc == c && !o.iter().any(|x| set.contains(x)) {
                out.push(Disc::AnyOf { conn: c, set: set.clone() });
            }
        }
    }
    out
}

impl Engine {
    pub fn new(cfg: &CfgSpec, seed: u64) -> Engine {
        let world = World::new(cfg.to_main_config(), seed);
        Engine {
            world,
            model: Model::new(cfg.clone()),
            log: vec![],
            eof_known: vec![],
            self_closed: vec![],
            steps: 0,
            detached_panics: 0,
            quit_known: false,
        }
    }

    pub fn connect(&mut self) -> usize {
        let c = self.world.connect();
        let host = self.world.conns[c].addr.ip().to_string();
        let mc = self.model.connect(&host);
        assert_eq!(c, mc);
        self.eof_known.push(false);
        self.self_closed.push(false);
        self.log.push(format!("c{} connects from {}", c, host));
        c
    }

    pub fn line(&mut self, c: usize, line: &str) -> StepOut {
        self.log.push(format!("c{} > {}", c, line));
        let exp = if self.self_closed[c] || self.eof_known[c] {
            let mut e = Expect::default();
            e.unknown = true;
            e
        } else {
            self.model.on_line(c, line)
        };
        self.world.send_line(c, line);
        self.world.settle();
        self.collect(Some(c), line.to_string(), exp)
    }

    // send raw bytes that the model does not interpret (crash search); model unchanged
    pub fn raw(&mut self, c: usize, bytes: &[u8]) -> StepOut {
        self.log.push(format!("c{} > (raw) {:?}", c, String::from_utf8_lossy(bytes)));
        let mut exp = Expect::default();
        exp.unknown = true;
        self.world.send_bytes(c, bytes);
        self.world.settle();
        self.collect(Some(c), String::from_utf8_lossy(bytes).into_owned(), exp)
    }

    pub fn close(&mut self, c: usize, kind: CloseKind) -> StepOut {
        self.log.push(format!("c{} closes ({:?})", c, kind));
        self.model.on_close(c);
        self.world.close(c, kind);
        self.self_closed[c] = true;
        self.world.settle();
        self.collect(None, format!("close c{}", c), Expect::default())
    }

    pub fn advance_ms(&mut self, ms: u64) -> StepOut {
        self.world.advance(std::time::Duration::from_millis(ms));
        let mut exp = Expect::default();
        exp.unknown = true;
        self.collect(None, format!("advance {}ms", ms), exp)
    }

    pub fn collect(&mut self, actor: Option<usize>, sent: String, exp: Expect) -> StepOut {
        self.steps += 1;
        let n = self.world.conns.len();
        let mut obs = BTreeMap::new();
        let mut raw = BTreeMap::new();
        let mut discs = vec![];
        for c in 0..n {
            let lines = self.world.drain(c);
            for l in &lines {
                self.log.push(format!("c{} < {}", c, l));
            }
            let nr = norm::normalise(SERVER_NAME, &lines);
            for m in nr.malformed {
                discs.push(Disc::Malformed { conn: c, line: m });
            }
            for f in std::mem::take(&mut self.world.conns[c].framing_errors) {
                discs.push(Disc::Framing { conn: c, msg: f });
            }
            if !nr.items.is_empty() {
                obs.insert(c, nr.items);
            }
            if !lines.is_empty() {
                raw.insert(c, lines);
            }
        }
        let mut exp = exp;
        if !exp.unknown {
            let mut d = diff(&exp, &obs, n);
            if !d.is_empty() && !exp.alts.is_empty() {
                let alts = std::mem::take(&mut exp.alts);
                for (alt, m2) in alts {
                    let d2 = diff(&alt, &obs, n);
                    if d2.is_empty() {
                        self.model = *m2;
                        let tags = exp.tags.clone();
                        exp = alt;
                        exp.tags = tags;
                        exp.tags.push("alt-outcome".to_string());
                        d = d2;
                        break;
                    }
                }
            }
            discs.extend(d);
        }
        // closes
        for c in 0..n {
            let eof = self.world.conns[c].eof;
            if eof && !self.eof_known[c] {
                self.eof_known[c] = true;
                self.log.push(format!("c{} EOF", c));
                if !exp.closes.contains(&c) && !self.self_closed[c] {
                    discs.push(Disc::UnexpectedClose { conn: c });
                }
            }
        }
        for c in &exp.closes {
            if !self.eof_known[*c] && !self.self_closed[*c] {
                discs.push(Disc::MissingClose { conn: *c });
            }
        }
        // panics
        let mut detached = 0;
        for p in crate::sim::take_panics() {
            match p.task {
                Some(id) => discs.push(Disc::Panic { conn: Some(id), msg: p.msg, loc: p.loc }),
                None => {
                    detached += 1;
                    self.log.push(format!("(detached task panic: {} at {})", p.msg, p.loc));
                }
            }
        }
        for c in 0..n {
            if self.world.conns[c].task_end == Some(TaskEnd::Panic)
                && !discs.iter().any(|d| matches!(d, Disc::Panic { conn: Some(x), .. } if *x == c))
            {
                // already reported in an earlier step
            }
        }
        self.detached_panics += detached;
        // server quit signal
        let quit = self.world.quit_seen.is_some();
        if quit != self.quit_known {
            self.quit_known = quit;
            if !exp.server_quit {
                discs.push(Disc::ServerQuit { expected: false });
            }
        } else if exp.server_quit && !quit {
            discs.push(Disc::ServerQuit { expected: true });
        }
        StepOut {
            ctx: String::new(),
            is_probe: false,
            actor,
            sent,
            exp,
            obs,
            raw,
            discs,
            detached_panics: detached,
        }
    }

    pub fn tail(&self, n: usize) -> Vec<String> {
        let st = self.log.len().saturating_sub(n);
        self.log[st..].to_vec()
    }

    // register a fresh connection as nick/user (with the right password if one is needed)
    pub fn register(&mut self, nick: &str, user: &str) -> (usize, Vec<StepOut>) {
        let c = self.connect();
        let mut outs = vec![];
        let secret = self
            .model
            .cfg
            .users
            .iter()
            .find(|u| u.name == user)
            .and_then(|u| u.password.clone())
            .or(self.model.cfg.password.clone());
        if let Some(p) = secret {
            outs.push(self.line(c, &format!("PASS {}", p)));
        }
        // both orders of NICK and USER are legal; which one a connection uses is a pure function of
        // its number and nick (no RNG here: replays stay exact)
        let user_first = (c + nick.len() + nick.bytes().map(|b| b as usize).sum::<usize>()) % 3 == 0;
        if user_first {
            outs.push(self.line(c, &format!("USER {} 0 * :Real {}", user, nick)));
            outs.push(self.line(c, &format!("NICK {}", nick)));
        } else {
            outs.push(self.line(c, &format!("NICK {}", nick)));
            outs.push(self.line(c, &format!("USER {} 0 * :Real {}", user, nick)));
        }
        (c, outs)
    }
}
