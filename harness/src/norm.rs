// Normalisation of lines received from the server into comparable items.  Every line is
// tokenised with the reference tokenizer (never with the server's own parser).  Human-readable
// texts, timestamps and HashMap iteration order are stripped / sorted here.

use crate::refparse::{self, RMsg};
use std::collections::BTreeMap;

// [0] = "S" for server-prefixed lines, else the full source prefix; [1] = command; rest = args
pub type NL = Vec<String>;

pub fn nl(parts: &[&str]) -> NL {
    parts.iter().map(|s| s.to_string()).collect()
}

pub fn show(n: &NL) -> String {
    n.iter().map(|s| if s.contains(' ') || s.is_empty() { format!("{:?}", s) } else { s.clone() }).collect::<Vec<_>>().join(" ")
}

pub const RANK_PREFIXES: &str = "~&@%+";

// canonical form of a channel-mode change list: sorted "+b mask" / "-i" items
pub fn canon_mode_changes(tokens: &[String]) -> Vec<String> {
    let mut out = vec![];
    let mut i = 0;
    while i < tokens.len() {
        let t = &tokens[i];
        i += 1;
        if t.starts_with('+') || t.starts_with('-') {
            let mut sign = '+';
            for ch in t.chars() {
                match ch {
                    '+' | '-' => sign = ch,
                    'b' | 'e' | 'I' | 'q' | 'a' | 'o' | 'h' | 'v' => {
                        let p = tokens.get(i).cloned().unwrap_or_default();
                        i += 1;
                        out.push(format!("{}{} {}", sign, ch, p));
                    }
                    'l' | 'k' if sign == '+' => {
                        let p = tokens.get(i).cloned().unwrap_or_default();
                        i += 1;
                        out.push(format!("{}{} {}", sign, ch, p));
                    }
                    c => out.push(format!("{}{}", sign, c)),
                }
            }
        } else {
            out.push(format!("?{}", t));
        }
    }
    out.sort();
    out
}

fn canon_user_mode(s: &str) -> Vec<String> {
    let mut out = vec![];
    let mut sign = '+';
    for ch in s.chars() {
        match ch {
            '+' | '-' => sign = ch,
            c => out.push(format!("{}{}", sign, c)),
        }
    }
    out.sort();
    out
}

// 324 payload "+imk key +b m ..." -> canonical items
pub fn canon_324(tokens: &[String]) -> Vec<String> {
    let mut out = vec![];
    let mut i = 0;
    if let Some(first) = tokens.get(0) {
        i = 1;
        let mut flags: Vec<char> = first.chars().filter(|c| *c != '+').collect();
        flags.sort();
        out.push(format!("flags:{}", flags.iter().collect::<String>()));
        if first.contains('k') {
            out.push(format!("key:{}", tokens.get(i).cloned().unwrap_or_default()));
            i += 1;
        }
        if first.contains('l') {
            out.push(format!("limit:{}", tokens.get(i).cloned().unwrap_or_default()));
            i += 1;
        }
    }
    let mut items = vec![];
    while i < tokens.len() {
        let a = tokens[i].clone();
        let b = tokens.get(i + 1).cloned().unwrap_or_default();
        items.push(format!("{} {}", a, b));
        i += 2;
    }
    items.sort();
    out.extend(items);
    out
}

fn grab_numbers(s: &str) -> Vec<String> {
    let mut out = vec![];
    let mut cur = String::new();
    for ch in s.chars() {
        if ch.is_ascii_digit() {
            cur.push(ch);
        } else if !cur.is_empty() {
            out.push(std::mem::take(&mut cur));
        }
    }
    if !cur.is_empty() {
        out.push(cur);
    }
    out
}

pub struct Normalised {
    pub items: Vec<NL>,
    pub malformed: Vec<String>,
}

// Normalise all lines one connection received during one step.
pub fn normalise(server: &str, lines: &[String]) -> Normalised {
    let mut items: Vec<NL> = vec![];
    let mut malformed = vec![];
    let mut names: BTreeMap<String, (String, Vec<String>)> = BTreeMap::new();
    let mut whois_chans: BTreeMap<String, Vec<String>> = BTreeMap::new();
    let mut ison: Option<Vec<String>> = None;
    let mut userhost: Option<Vec<String>> = None;
    for l in lines {
        let m: RMsg = match refparse::parse(l) {
            Ok(m) => m,
            Err(_) => {
                malformed.push(l.clone());
                continue;
            }
        };
        let src = match &m.source {
            Some(s) => s.clone(),
            None => {
                malformed.push(l.clone());
                continue;
            }
        };
        if src != server {
            // relayed line
            let mut v = vec![src, m.command.to_ascii_uppercase()];
            if m.command.eq_ignore_ascii_case("MODE") && m.params.len() >= 2 {
                v.push(m.params[0].clone());
                if m.params[0].starts_with('#') || m.params[0].starts_with('&') {
                    v.extend(canon_mode_changes(&m.params[1..]));
                } else {
                    v.extend(canon_user_mode(&m.params[1..].join("")));
                }
            } else if m.command.eq_ignore_ascii_case("NICK") {
                // the server relays the sender's line as it came: a NICK with the old hop-count
                // parameter still names the new nick in its first parameter (all that counts)
                v.extend(m.params.iter().take(1).cloned());
            } else {
                v.extend(m.params.iter().cloned());
            }
            items.push(v);
            continue;
        }
        let cmd = m.command.as_str();
        // args without the leading client parameter (numerics only)
        let a: Vec<String> = if cmd.len() == 3 && cmd.chars().all(|c| c.is_ascii_digit()) {
            m.params.iter().skip(1).cloned().collect()
        } else {
            m.params.clone()
        };
        let g = |i: usize| a.get(i).cloned().unwrap_or_default();
        let mut push = |code: &str, args: Vec<String>| {
            let mut v = vec!["S".to_string(), code.to_string()];
            v.extend(args);
            items.push(v);
        };
        match cmd {
            "002" | "003" | "004" | "005" | "253" | "250" | "212" => {}
            "001" | "375" | "376" | "305" | "306" | "321" | "323" | "351" | "364" | "365"
            | "371" | "374" | "381" | "391" | "417" | "451" | "462" | "464" | "481" | "483"
            | "484" | "491" | "501" | "502" | "972" | "242" | "256" | "257" | "258" | "259"
            => push(cmd, vec![]),
            "251" => {
                let n = grab_numbers(&g(0));
                push(cmd, vec![n.get(0).cloned().unwrap_or_default(), n.get(1).cloned().unwrap_or_default()]);
            }
            "252" | "254" => push(cmd, vec![g(0)]),
            "255" => {
                let n = grab_numbers(&g(0));
                push(cmd, vec![n.get(0).cloned().unwrap_or_default()]);
            }
            "265" | "266" => push(cmd, vec![g(0), g(1)]),
            "372" => push(cmd, vec![g(0)]),
            "221" => {
                let mut f: Vec<char> = g(0).chars().filter(|c| *c != '+').collect();
                f.sort();
                push(cmd, vec![f.into_iter().collect()]);
            }
            "301" => push(cmd, vec![g(0), g(1)]),
            "302" => {
                let e = userhost.get_or_insert_with(Vec::new);
                e.extend(g(0).split(' ').filter(|s| !s.is_empty()).map(|s| s.to_string()));
            }
            "303" => {
                let e = ison.get_or_insert_with(Vec::new);
                e.extend(g(0).split(' ').filter(|s| !s.is_empty()).map(|s| s.to_string()));
            }
            "307" | "313" | "317" | "378" | "671" | "312" => push(cmd, vec![g(0)]),
            "379" => push(cmd, vec![g(0)]),
            "311" | "314" => push(cmd, vec![g(0), g(1), g(2), g(4)]),
            "315" | "318" | "369" | "366" | "331" | "329" | "347" | "349" | "368" | "403"
            | "404" | "405" | "406" | "401" | "433" | "442" | "471" | "473" | "474" | "475"
            | "482" | "421" | "461" | "219" | "524" | "333" => push(cmd, vec![g(0)]),
            "319" => {
                let e = whois_chans.entry(g(0)).or_default();
                e.extend(g(1).split(' ').filter(|s| !s.is_empty()).map(|s| s.to_string()));
            }
            "322" => push(cmd, vec![g(0), g(1), g(2)]),
            "324" => {
                let mut v = vec![g(0)];
                v.extend(canon_324(&a[1.min(a.len())..]));
                push(cmd, v);
            }
            "332" => push(cmd, vec![g(0), g(1)]),
            "341" | "441" | "443" | "346" | "348" | "367" => push(cmd, vec![g(0), g(1)]),
            "352" => {
                // chan ~user host server nick flags :hop real
                let last = g(6);
                let real = last.splitn(2, ' ').nth(1).unwrap_or("").to_string();
                push(cmd, vec![g(0), g(1), g(2), g(4), g(5), real]);
            }
            "353" => {
                let e = names.entry(g(1)).or_insert_with(|| (g(0), vec![]));
                e.1.extend(g(2).split(' ').filter(|s| !s.is_empty()).map(|s| s.to_string()));
            }
            "400" => push(cmd, vec![g(0)]),
            "696" => push(cmd, vec![g(0), g(1), g(2)]),
            "704" | "705" | "706" => push("HELP", vec![]),
            "PONG" => push("PONG", vec![g(1)]),
            "PING" => push("PING", vec![g(0)]),
            "ERROR" | "ERROR:" => push("ERROR", vec![]),
            "CAP" => push("CAP", m.params.clone()),
            c => {
                // unknown server line: keep verbatim (will show up as an extra line)
                let mut v = vec![c.to_string()];
                v.extend(a.clone());
                push("?", v);
            }
        }
    }
    for (chan, (sym, mut e)) in names {
        e.sort();
        let mut v = vec!["S".to_string(), "353".to_string(), chan, sym];
        v.extend(e);
        items.push(v);
    }
    for (nick, mut e) in whois_chans {
        e.sort();
        let mut v = vec!["S".to_string(), "319".to_string(), nick];
        v.extend(e);
        items.push(v);
    }
    if let Some(mut e) = ison {
        e.sort();
        let mut v = vec!["S".to_string(), "303".to_string()];
        v.extend(e);
        items.push(v);
    }
    if let Some(mut e) = userhost {
        e.sort();
        let mut v = vec!["S".to_string(), "302".to_string()];
        v.extend(e);
        items.push(v);
    }
    // help replies collapse to a single marker
    let mut seen_help = false;
    items.retain(|v| {
        if v[1] == "HELP" {
            if seen_help {
                return false;
            }
            seen_help = true;
        }
        true
    });
    Normalised { items, malformed }
}
