// C20 - configuration is validated at start-up and governs behaviour as documented.
// Parts: validation (generated TOML + CLI vs a reference validator), hash round trip,
// documented-key liveness (every key of config-example.toml must reach the parsed config),
// settings govern the welcome burst / registration (SIM), real binary (exit status, -g).

use clap::Parser;
use proptest::prelude::*;
use serde_derive::{Deserialize, Serialize};
use serde_json::{json, Value};
use std::io::Read;
use std::panic::{catch_unwind, AssertUnwindSafe};
use std::process::{Command, Stdio};
use std::sync::atomic::{AtomicU64, Ordering};
use std::time::{Duration, Instant};

use crate::cfgspec::hash_of;
use crate::gen::S;
use crate::runner::*;
use crate::sim::World;
use crate::{Cli, MainConfig};

#[derive(Clone, Debug, Serialize, Deserialize)]
pub struct CfgCase {
    pub seeds: Vec<u16>,
}

pub struct GenCfg {
    pub toml: String,
    pub cli: Vec<String>,
    pub valid: bool,
    pub reasons: Vec<String>,
    pub eff_name: String,
    pub eff_network: String,
    pub eff_port: u16,
    pub eff_listen: String,
    pub motd: String,
    pub max_joins: Option<usize>,
    pub max_connections: Option<usize>,
    pub default_modes: String,
    pub password: Option<String>,
    pub overrides: Vec<String>,
    pub admin_info2: bool,
    pub admin_email: bool,
    pub eff_log_file: Option<String>,
    pub eff_dns: bool,
    pub ping_timeout: u64,
    pub pong_timeout: u64,
}

static FILE_SEQ: AtomicU64 = AtomicU64::new(0);

fn tmp_dir() -> String {
    let d = format!("{}/.build/tmp", VERIF_DIR);
    let _ = std::fs::create_dir_all(&d);
    d
}

fn q(s: &str) -> String {
    format!("{:?}", s)
}

// 0 = valid value, 1 = absent, 2 = invalid value
fn mode(s: &mut S, p_absent: u32, p_invalid: u32) -> u8 {
    let r = s.pick(100) as u32;
    if r >= 100 - p_invalid {
        2
    } else if r >= 100 - p_invalid - p_absent {
        1
    } else {
        0
    }
}

pub fn gen_config(seeds: &[u16], force_valid: bool) -> GenCfg {
    let mut s = S::new(seeds);
    s.raw();
    let pa = if force_valid { 0 } else { 3 };
    let pi = if force_valid { 0 } else { 4 };
    let mut t = String::new();
    let mut reasons: Vec<String> = vec![];
    let mut bad = |r: &str, reasons: &mut Vec<String>| reasons.push(r.to_string());

    let names = ["irc.example.org", "a.b", "irc.local.", "x.y.z"];
    let mut name = names[s.pick(names.len())].to_string();
    match mode(&mut s, pa, pi) {
        0 => t += &format!("name = {}\n", q(&name)),
        1 => {
            bad("name absent", &mut reasons);
            name = String::new();
        }
        _ => {
            if s.chance(50) {
                name = "ircserver".into();
                t += "name = \"ircserver\"\n";
                // validity depends on a CLI override, decided below
            } else {
                t += "name = 5\n";
                bad("name wrong type", &mut reasons);
            }
        }
    }
    for f in ["admin_info", "info"] {
        match mode(&mut s, pa, pi) {
            0 => t += &format!("{} = {}\n", f, q(&format!("some {} text", f))),
            1 => bad(&format!("{} absent", f), &mut reasons),
            _ => {
                t += &format!("{} = true\n", f);
                bad(&format!("{} wrong type", f), &mut reasons);
            }
        }
    }
    let admin_info2 = s.chance(50);
    if admin_info2 {
        t += "admin_info2 = \"second line\"\n";
    }
    let admin_email = s.chance(40);
    if admin_email {
        t += "admin_email = \"admin@example.org\"\n";
    }
    let motds = ["Hello, guys!", "motd with : colon and  spaces", "\u{e9}\u{65e5} unicode motd", "x"];
    let motd = motds[s.pick(motds.len())].to_string();
    match mode(&mut s, pa, pi) {
        0 => t += &format!("motd = {}\n", q(&motd)),
        1 => bad("motd absent", &mut reasons),
        _ => {
            t += "motd = 12\n";
            bad("motd wrong type", &mut reasons);
        }
    }
    let mut listen = ["127.0.0.1", "::1", "0.0.0.0"][s.pick(3)].to_string();
    match mode(&mut s, pa, pi) {
        0 => t += &format!("listen = {}\n", q(&listen)),
        1 => bad("listen absent", &mut reasons),
        _ => {
            t += "listen = \"not-an-ip\"\n";
            listen = "not-an-ip".into();
            bad("listen invalid", &mut reasons);
        }
    }
    let mut port: u16 = [6667, 6697, 1, 65535][s.pick(4)];
    match mode(&mut s, pa, pi) {
        0 => t += &format!("port = {}\n", port),
        1 => bad("port absent", &mut reasons),
        _ => {
            t += ["port = 70000\n", "port = \"6667\"\n", "port = -1\n"][s.pick(3)];
            port = 0;
            bad("port invalid", &mut reasons);
        }
    }
    let networks = ["IRCInetwork", "Net2", "n"];
    let mut network = networks[s.pick(networks.len())].to_string();
    match mode(&mut s, pa, pi) {
        0 => t += &format!("network = {}\n", q(&network)),
        1 => {
            bad("network absent", &mut reasons);
            network = String::new();
        }
        _ => {
            t += "network = 1.5\n";
            bad("network wrong type", &mut reasons);
        }
    }
    let mut password = None;
    match mode(&mut s, 50, pi) {
        0 => {
            // (blanks at either end are part of a password)
            let p = ["srvpass", "p\u{e4}ssw\u{f6}rd", "long long long password with spaces", "ends with a blank ", " starts with a blank"][s.pick(5)].to_string();
            t += &format!("password = {}\n", q(&hash_of(&p)));
            password = Some(p);
        }
        1 => {}
        _ => {
            t += ["password = \"abc\"\n", "password = \"!!!not base64!!!\"\n", "password = \"QUJDREVGR0hJSktMTU5PUFFSU1RVVldYWVowMTIzNDU2Nzg5\"\n"][s.pick(3)];
            bad("password hash invalid", &mut reasons);
        }
    }
    let mut max_connections = None;
    if s.chance(50) {
        let m = if s.chance(50) { 2 + s.pick(4) } else { 1 + s.pick(5000) };
        t += &format!("max_connections = {}\n", m);
        max_connections = Some(m);
    }
    let mut max_joins = None;
    match mode(&mut s, 40, pi) {
        0 => {
            let m = if s.chance(60) { 1 + s.pick(8) } else { 1 + s.pick(200) };
            t += &format!("max_joins = {}\n", m);
            max_joins = Some(m);
        }
        1 => {}
        _ => {
            t += ["max_joins = -3\n", "max_joins = \"many\"\n"][s.pick(2)];
            bad("max_joins invalid", &mut reasons);
        }
    }
    let mut timeouts: [u64; 2] = [0, 0];
    for (fi, f) in ["ping_timeout", "pong_timeout"].iter().enumerate() {
        match mode(&mut s, pa, pi) {
            0 => {
                let v = 1 + s.pick(300) as u64;
                timeouts[fi] = v;
                t += &format!("{} = {}\n", f, v)
            }
            1 => bad(&format!("{} absent", f), &mut reasons),
            _ => {
                t += &format!("{} = -5\n", f);
                bad(&format!("{} negative", f), &mut reasons);
            }
        }
    }
    match mode(&mut s, pa, pi) {
        0 => t += "dns_lookup = false\n",
        1 => bad("dns_lookup absent", &mut reasons),
        _ => {
            t += "dns_lookup = \"no\"\n";
            bad("dns_lookup wrong type", &mut reasons);
        }
    }
    match mode(&mut s, pa, pi) {
        0 => t += &format!("log_level = {}\n", q(["INFO", "debug", "WARN", "error", "TRACE"][s.pick(5)])),
        1 => bad("log_level absent", &mut reasons),
        _ => {
            t += "log_level = \"LOUD\"\n";
            bad("log_level invalid", &mut reasons);
        }
    }
    let mut eff_log_file: Option<String> = None;
    if s.chance(20) {
        let lf = format!("{}/c20-unused.log", tmp_dir());
        t += &format!("log_file = {}\n", q(&lf));
        eff_log_file = Some(lf);
    }
    // tables
    if s.chance(15) {
        match mode(&mut s, 0, pi * 3) {
            0 => t += "\n[tls]\ncert_file = \"cert.crt\"\ncert_key_file = \"cert_key.crt\"\n",
            _ => {
                t += "\n[tls]\ncert_file = \"cert.crt\"\n";
                bad("tls key file missing", &mut reasons);
            }
        }
    }
    let mut default_modes = String::new();
    match mode(&mut s, pa, pi) {
        0 => {
            t += "\n[default_user_modes]\n";
            for (f, l) in [("invisible", 'i'), ("oper", 'o'), ("local_oper", 'O'), ("registered", 'r'), ("wallops", 'w')] {
                let v = s.chance(25);
                if v {
                    default_modes.push(l);
                }
                t += &format!("{} = {}\n", f, v);
            }
        }
        1 => bad("default_user_modes absent", &mut reasons),
        _ => {
            t += "\n[default_user_modes]\ninvisible = false\noper = false\nregistered = true\nwallops = false\n";
            bad("default_user_modes.local_oper absent", &mut reasons);
        }
    }
    let good_hash = hash_of("operpw0");
    for _ in 0..s.pick(3) {
        t += "\n[[operators]]\n";
        match mode(&mut s, 0, pi * 2) {
            0 => t += &format!("name = {}\n", q(["matszpk", "op0", "root"][s.pick(3)])),
            _ => {
                t += &format!("name = {}\n", q(["op.x", "#op", "a,b", "a:b"][s.pick(4)]));
                bad("operator name invalid", &mut reasons);
            }
        }
        match mode(&mut s, pa, pi * 2) {
            0 => t += &format!("password = {}\n", q(&good_hash)),
            1 => bad("operator password absent", &mut reasons),
            _ => {
                t += "password = \"short\"\n";
                bad("operator password invalid", &mut reasons);
            }
        }
        if s.chance(50) {
            t += "mask = \"*!*@localhost\"\n";
        }
    }
    for _ in 0..s.pick(3) {
        t += "\n[[users]]\n";
        match mode(&mut s, pa, pi * 2) {
            0 => t += &format!("name = {}\n", q(["matszpk", "guest", "u1"][s.pick(3)])),
            1 => bad("user name absent", &mut reasons),
            _ => {
                t += &format!("name = {}\n", q(["us.er", "&u", "a,b"][s.pick(3)]));
                bad("user name invalid", &mut reasons);
            }
        }
        match mode(&mut s, pa, pi * 2) {
            0 => t += &format!("nick = {}\n", q(["matszpk", "guest", "n1"][s.pick(3)])),
            1 => bad("user nick absent", &mut reasons),
            _ => {
                if s.chance(50) {
                    t += &format!("nick = {}\n", q(["ni.ck", "#n", "a:b"][s.pick(3)]));
                } else {
                    t += &format!("nick = {}\n", q(&"n".repeat(201)));
                }
                bad("user nick invalid", &mut reasons);
            }
        }
        match mode(&mut s, 40, pi * 2) {
            0 => t += &format!("password = {}\n", q(&good_hash)),
            1 => {}
            _ => {
                t += ["password = \"abc\"\n", "password = \"abcdefghij\"\n"][s.pick(2)];
                bad("user password invalid", &mut reasons);
            }
        }
        if s.chance(40) {
            t += "mask = \"*!*@10.0.0.*\"\n";
        }
    }
    for i in 0..s.pick(3) {
        t += "\n[[channels]]\n";
        match mode(&mut s, pa, pi * 2) {
            0 => t += &format!("name = {}\n", q(&format!("{}chan{}", ["#", "&"][s.pick(2)], i))),
            1 => bad("channel name absent", &mut reasons),
            _ => {
                t += &format!("name = {}\n", q(["nochanprefix", "#a,b", "#a:b", ""][s.pick(4)]));
                bad("channel name invalid", &mut reasons);
            }
        }
        if s.chance(50) {
            t += "topic = \"Some topic\"\n";
        }
        match mode(&mut s, pa, pi) {
            0 => {
                t += "\n[channels.modes]\n";
                if s.chance(30) {
                    t += "ban = [ \"*!*@localhost\" ]\n";
                }
                if s.chance(30) {
                    t += "key = \"blabla\"\n";
                }
                if s.chance(30) {
                    t += "operators = [ \"matszpk\" ]\n";
                }
                if s.chance(30) {
                    t += "client_limit = 10\n";
                }
                for f in ["moderated", "invite_only", "secret", "protected_topic", "no_external_messages"] {
                    t += &format!("{} = {}\n", f, s.chance(30));
                }
            }
            1 => bad("channel modes absent", &mut reasons),
            _ => {
                t += "\n[channels.modes]\nmoderated = false\ninvite_only = false\nsecret = false\nprotected_topic = false\n";
                bad("channel modes.no_external_messages absent", &mut reasons);
            }
        }
    }
    // command line
    let mut cli: Vec<String> = vec![];
    let mut overrides: Vec<String> = vec![];
    let mut eff_name = name.clone();
    let mut eff_network = network.clone();
    let mut eff_port = port;
    let mut eff_listen = listen.clone();
    let p_cli = if force_valid { 25 } else { 18 };
    if s.chance(p_cli) {
        let n = if force_valid || s.chance(70) { "cli.name.org" } else { "cliname" };
        cli.push("-n".into());
        cli.push(n.into());
        eff_name = n.into();
        overrides.push("name".into());
    }
    if s.chance(p_cli) {
        cli.push("-N".into());
        cli.push("CliNet".into());
        eff_network = "CliNet".into();
        overrides.push("network".into());
    }
    if s.chance(p_cli) {
        cli.push("-p".into());
        if force_valid || s.chance(80) {
            cli.push("7001".into());
            eff_port = 7001;
            overrides.push("port".into());
        } else {
            cli.push("notaport".into());
            bad("cli port invalid", &mut reasons);
        }
    }
    if s.chance(p_cli) {
        cli.push("-l".into());
        cli.push("127.0.0.3".into());
        eff_listen = "127.0.0.3".into();
        overrides.push("listen".into());
    }
    // -L replaces the log file of the configuration file (or sets one), -d switches DNS lookup on
    if s.chance(p_cli) {
        let lf = format!("{}/c20-cli.log", tmp_dir());
        cli.push("-L".into());
        cli.push(lf.clone());
        eff_log_file = Some(lf);
        overrides.push("log_file".into());
    }
    let mut eff_dns = false;
    if s.chance(p_cli / 2) {
        cli.push("-d".into());
        eff_dns = true;
        overrides.push("dns_lookup".into());
    }
    if !force_valid && s.chance(8) {
        match s.pick(3) {
            0 => {
                cli.push("-C".into());
                cli.push("cert.crt".into());
                bad("cli tls cert without key", &mut reasons);
            }
            1 => {
                cli.push("-K".into());
                cli.push("key.crt".into());
                bad("cli tls key without cert", &mut reasons);
            }
            _ => {
                cli.push("-C".into());
                cli.push("cert.crt".into());
                cli.push("-K".into());
                cli.push("key.crt".into());
                overrides.push("tls".into());
            }
        }
    }
    if !eff_name.contains('.') && !reasons.iter().any(|r| r.starts_with("name")) {
        reasons.push("server name without a dot".into());
    }
    // an override supplies a value for a field, it does not make an absent/ill-typed field legal:
    // the file must deserialize first
    GenCfg {
        toml: t,
        cli,
        valid: reasons.is_empty(),
        reasons,
        eff_name,
        eff_network,
        eff_port,
        eff_listen,
        motd,
        max_joins,
        max_connections,
        default_modes,
        password,
        overrides,
        admin_info2,
        admin_email,
        eff_log_file,
        eff_dns,
        ping_timeout: timeouts[0],
        pong_timeout: timeouts[1],
    }
}

fn write_tmp(toml: &str) -> String {
    let path = format!("{}/c20-{}-{}.toml", tmp_dir(), std::process::id(), FILE_SEQ.fetch_add(1, Ordering::Relaxed));
    std::fs::write(&path, toml).expect("write temp config");
    path
}

fn load(g: &GenCfg) -> (Result<MainConfig, String>, String) {
    let path = write_tmp(&g.toml);
    let mut args = vec!["simple-irc-server".to_string(), "-c".to_string(), path.clone()];
    args.extend(g.cli.iter().cloned());
    crate::sim::set_in_sim(true);
    let r = catch_unwind(AssertUnwindSafe(|| match Cli::try_parse_from(args.iter()) {
        Ok(cli) => MainConfig::new(cli).map_err(|e| e.to_string()),
        Err(e) => Err(format!("cli: {}", e.kind())),
    }));
    crate::sim::set_in_sim(false);
    let _ = crate::sim::take_panics();
    let _ = std::fs::remove_file(&path);
    (r.unwrap_or_else(|_| Err("PANIC while loading the configuration".to_string())), path)
}

pub fn check_validation(c: &CfgCase, st: &mut Stats) -> Result<(), Viol> {
    let g = gen_config(&c.seeds, false);
    let (r, _) = load(&g);
    st.count(if g.valid { "reference_valid" } else { "reference_invalid" });
    if !g.reasons.is_empty() || !g.overrides.is_empty() {
        let mut key: Vec<String> = g.reasons.iter().map(|r| r.split(' ').take(2).collect::<Vec<_>>().join(" ")).collect();
        key.extend(g.overrides.iter().map(|o| format!("cli:{}", o)));
        key.sort();
        key.dedup();
        st.nontrivial(key.join("|"), || json!({"invalid_because": g.reasons, "cli": g.cli, "toml_head": g.toml.lines().take(12).collect::<Vec<_>>()}));
    }
    match (&r, g.valid) {
        (Err(e), true) => Err(Viol::new(
            "C20.valid_config_starts",
            "valid-rejected",
            format!("a configuration that satisfies every documented rule was rejected: {}\ncli {:?}\n{}", e, g.cli, g.toml),
        )),
        (Ok(_), false) => Err(Viol::new(
            "C20.invalid_config_rejected",
            format!("invalid-accepted:{}", g.reasons[0].split(' ').take(2).collect::<Vec<_>>().join("-")),
            format!("a configuration that violates the documented rules ({:?}) was accepted\ncli {:?}\n{}", g.reasons, g.cli, g.toml),
        )),
        (Err(e), false) => {
            if e.starts_with("PANIC") {
                return Err(Viol::new("C20.exits_with_error", "load-panic", format!("loading an invalid configuration aborted instead of returning an error\n{}", g.toml)));
            }
            Ok(())
        }
        (Ok(cfg), true) => {
            let mut diffs = vec![];
            if cfg.name != g.eff_name {
                diffs.push(format!("name {:?} != {:?}", cfg.name, g.eff_name));
            }
            if cfg.network != g.eff_network {
                diffs.push(format!("network {:?} != {:?}", cfg.network, g.eff_network));
            }
            if cfg.port != g.eff_port {
                diffs.push(format!("port {} != {}", cfg.port, g.eff_port));
            }
            if cfg.listen.to_string() != g.eff_listen {
                diffs.push(format!("listen {} != {}", cfg.listen, g.eff_listen));
            }
            if g.overrides.contains(&"tls".to_string()) && cfg.tls.as_ref().map(|t| t.cert_file.as_str()) != Some("cert.crt") {
                diffs.push("tls override ignored".into());
            }
            if cfg.log_file != g.eff_log_file {
                diffs.push(format!("log_file {:?} != {:?}", cfg.log_file, g.eff_log_file));
            }
            if cfg.dns_lookup != g.eff_dns {
                diffs.push(format!("dns_lookup {} != {}", cfg.dns_lookup, g.eff_dns));
            }
            if cfg.motd != g.motd || cfg.max_joins != g.max_joins {
                diffs.push("motd/max_joins differ from the file".into());
            }
            if diffs.is_empty() {
                Ok(())
            } else {
                Err(Viol::new(
                    "C20.cli_overrides_file",
                    format!("effective-value:{}", diffs[0].split(' ').next().unwrap_or("")),
                    format!("effective configuration differs: {:?}\ncli {:?}\n{}", diffs, g.cli, g.toml),
                ))
            }
        }
    }
}

// ------------------------------------------------------------------------- hash round trip
#[derive(Clone, Debug, Serialize, Deserialize)]
pub struct PwCase {
    pub a: String,
    pub b: String,
}

fn pw_strat() -> impl Strategy<Value = PwCase> {
    let alpha: Vec<char> = "abAB01 !\u{e9}\u{df}\u{65e5}:\t$".chars().collect();
    (prop::collection::vec(0usize..alpha.len(), 0..24), 0u8..6, any::<u16>(), 0usize..14).prop_map(move |(v, op, pos, ci)| {
        let a: String = v.iter().map(|i| alpha[*i]).collect();
        let mut bc: Vec<char> = a.chars().collect();
        let p = if bc.is_empty() { 0 } else { (pos as usize * bc.len()) >> 16 };
        match op {
            0 => {}
            1 => bc.insert(p, alpha[ci % alpha.len()]),
            2 => {
                if !bc.is_empty() {
                    bc.remove(p);
                }
            }
            3 => {
                if !bc.is_empty() {
                    bc[p] = if bc[p].is_ascii_lowercase() { bc[p].to_ascii_uppercase() } else { alpha[ci % alpha.len()] };
                }
            }
            4 => bc.push(' '),
            _ => bc.reverse(),
        }
        PwCase { a, b: bc.into_iter().collect() }
    })
}

pub fn check_hash(c: &PwCase, st: &mut Stats) -> Result<(), Viol> {
    let h = crate::argon2_hash_password(&c.a);
    if crate::validate_password_hash(&h).is_err() {
        return Err(Viol::new("C20.hash_is_wellformed", "hash-invalid", format!("hash of {:?} = {:?} does not pass validate_password_hash", c.a, h)));
    }
    let ok = crate::argon2_verify_password(&c.b, &h).is_ok();
    let same = c.a == c.b;
    let close = {
        let (x, y): (Vec<char>, Vec<char>) = (c.a.chars().collect(), c.b.chars().collect());
        (x.len() as i64 - y.len() as i64).abs() <= 1
    };
    if close {
        st.nontrivial(format!("{}|{}|{}", same, c.a.chars().count().min(12), c.a.is_ascii()), || json!({"password": c.a, "tried": c.b, "accepted": ok}));
    }
    if ok != same {
        return Err(Viol::new(
            "C20.hash_accepts_exactly_its_password",
            if ok { "hash-accepts-other" } else { "hash-rejects-own" },
            format!("hash generated from {:?} {} the password {:?}", c.a, if ok { "accepts" } else { "rejects" }, c.b),
        ));
    }
    Ok(())
}

// ----------------------------------------------------------------- documented-key liveness
#[derive(Clone, Debug, Serialize, Deserialize)]
pub struct KeyCase {
    pub index: u64,
}

fn leaf_paths(v: &toml::Value, prefix: &mut Vec<String>, out: &mut Vec<Vec<String>>) {
    match v {
        toml::Value::Table(t) => {
            for (k, x) in t {
                prefix.push(k.clone());
                leaf_paths(x, prefix, out);
                prefix.pop();
            }
        }
        toml::Value::Array(a) if a.iter().all(|x| x.is_table()) => {
            for (i, x) in a.iter().enumerate() {
                prefix.push(format!("#{}", i));
                leaf_paths(x, prefix, out);
                prefix.pop();
            }
        }
        _ => out.push(prefix.clone()),
    }
}

fn get_mut<'a>(v: &'a mut toml::Value, path: &[String]) -> Option<&'a mut toml::Value> {
    let mut cur = v;
    for p in path {
        cur = if let Some(i) = p.strip_prefix('#') {
            cur.as_array_mut()?.get_mut(i.parse::<usize>().ok()?)?
        } else {
            cur.as_table_mut()?.get_mut(p)?
        };
    }
    Some(cur)
}

fn example_doc() -> Result<toml::Value, String> {
    let p = std::env::var("SIRC_EXAMPLE").unwrap_or_else(|_| "/repo/config-example.toml".to_string());
    let txt = std::fs::read_to_string(&p).map_err(|e| format!("{}: {}", p, e))?;
    toml::from_str::<toml::Value>(&txt).map_err(|e| format!("config-example.toml does not parse: {}", e))
}

pub fn example_leaves() -> Result<Vec<Vec<String>>, String> {
    let doc = example_doc()?;
    let mut out = vec![];
    leaf_paths(&doc, &mut vec![], &mut out);
    Ok(out)
}

pub fn check_key(c: &KeyCase, st: &mut Stats) -> Result<(), Viol> {
    let doc = example_doc().map_err(|e| Viol::new("C20.example_parses", "example-unreadable", e))?;
    let leaves = example_leaves().unwrap();
    let Some(path) = leaves.get(c.index as usize) else { return Ok(()) };
    let base_txt = toml::to_string(&doc).unwrap();
    let base = toml::from_str::<MainConfig>(&base_txt)
        .map_err(|e| Viol::new("C20.example_parses", "example-rejected", format!("config-example.toml is not accepted by the parser: {}", e)))?;
    let base_dbg = format!("{:?}", base);
    // type-aware mutations; the first one that still deserializes is used
    let mut doc2 = doc.clone();
    let leaf = get_mut(&mut doc2, path).unwrap().clone();
    let candidates: Vec<toml::Value> = match &leaf {
        toml::Value::Boolean(b) => vec![toml::Value::Boolean(!b)],
        toml::Value::Integer(i) => vec![toml::Value::Integer(i + 1)],
        toml::Value::String(x) => {
            let mut v = vec![];
            if x.parse::<std::net::IpAddr>().is_ok() {
                v.push(toml::Value::String("127.0.0.2".into()));
            }
            if ["TRACE", "DEBUG", "INFO", "WARN", "ERROR"].contains(&x.to_ascii_uppercase().as_str()) {
                v.push(toml::Value::String("DEBUG".into()));
                v.push(toml::Value::String("ERROR".into()));
            }
            if x.len() > 60 {
                v.push(toml::Value::String(hash_of("another password")));
            }
            v.push(toml::Value::String(format!("{}x", x)));
            v
        }
        toml::Value::Array(a) => {
            let mut b = a.clone();
            b.push(toml::Value::String("added!*@*".into()));
            vec![toml::Value::Array(b)]
        }
        other => vec![other.clone()],
    };
    let shown = path.join(".");
    for cand in candidates {
        if cand == leaf {
            continue;
        }
        let mut d = doc.clone();
        *get_mut(&mut d, path).unwrap() = cand.clone();
        let txt = toml::to_string(&d).unwrap();
        if let Ok(cfg) = toml::from_str::<MainConfig>(&txt) {
            st.nontrivial(shown.clone(), || json!({"key": shown, "mutated_to": format!("{}", cand)}));
            if format!("{:?}", cfg) == base_dbg {
                return Err(Viol::new(
                    "C20.documented_key_is_read",
                    format!("dead-key:{}", path.last().cloned().unwrap_or_default()),
                    format!(
                        "config-example.toml documents the key `{}` but changing its value ({} -> {}) does not change the parsed configuration: the setting is ignored",
                        shown, leaf, cand
                    ),
                ));
            }
            return Ok(());
        }
    }
    st.count("key_mutation_not_applicable");
    Ok(())
}

// ------------------------------------------------------------ settings govern behaviour (SIM)
pub fn check_govern(c: &CfgCase, st: &mut Stats) -> Result<(), Viol> {
    let g = gen_config(&c.seeds, true);
    let (r, _) = load(&g);
    let cfg = match r {
        Ok(c) => c,
        Err(e) => {
            return Err(Viol::new("C20.valid_config_starts", "valid-rejected", format!("valid configuration rejected: {}\ncli {:?}\n{}", e, g.cli, g.toml)));
        }
    };
    let mut s = S::new(&c.seeds);
    let seed = s.raw() as u64;
    let mut w = World::new(cfg, seed);
    let conn = w.connect();
    let mut log = vec![];
    let try_pw = s.pick(3); // 0 right, 1 wrong, 2 none
    if g.password.is_some() {
        match try_pw {
            0 => w.send_line(conn, &format!("PASS :{}", g.password.clone().unwrap())),
            1 => {
                // a wrong password: unrelated, or the right one with a blank added / removed
                let right = g.password.clone().unwrap();
                let near = if right.trim() != right { right.trim().to_string() } else { format!("{} ", right) };
                let wrong = if s.chance(50) { "definitely wrong".to_string() } else { near };
                w.send_line(conn, &format!("PASS :{}", wrong));
            }
            _ => {}
        }
    }
    w.send_line(conn, "NICK tester");
    w.send_line(conn, "USER someone 0 * :Some One");
    w.settle();
    let lines = w.drain(conn);
    for l in &lines {
        log.push(format!("< {}", l));
    }
    let fail = |pred: &str, sig: &str, msg: String| Viol::new(pred, sig.to_string(), format!("{}\ncli {:?}\n{}", msg, g.cli, g.toml)).with_transcript(log.clone());
    let welcome = lines.iter().any(|l| l.contains(" 001 "));
    let must_pass = g.password.is_none() || try_pw == 0;
    st.nontrivial(
        format!("pw{}|{}|mj{}|{}|{:?}", g.password.is_some() as u8, try_pw, g.max_joins.is_some() as u8, g.default_modes, g.overrides),
        || json!({"cli": g.cli, "password_configured": g.password.is_some(), "tried": (["right", "wrong", "none"][try_pw]), "default_modes": g.default_modes}),
    );
    if welcome != must_pass {
        return Err(fail(
            "C20.password_governs_registration",
            if welcome { "registered-without-password" } else { "right-password-refused" },
            format!("server password {:?}, client tried {}: welcome={}", g.password, ["the right one", "a wrong one", "none"][try_pw], welcome),
        ));
    }
    if !welcome {
        if !lines.iter().any(|l| l.contains(" 464 ")) || !w.conns[conn].eof {
            return Err(fail("C20.password_governs_registration", "no-464-close", "wrong/missing password must be answered with 464 and a close".into()));
        }
        crate::sim::set_in_sim(false);
        return Ok(());
    }
    let joined = lines.join("\n");
    let checks: Vec<(bool, String)> = vec![
        (lines.iter().any(|l| l.starts_with(&format!(":{} 001 ", g.eff_name)) && l.contains(&g.eff_network)), format!("001 from {} naming network {}", g.eff_name, g.eff_network)),
        (lines.iter().any(|l| l.contains(" 004 ") && l.contains(&g.eff_name)), "004 with the server name".into()),
        (lines.iter().any(|l| l.contains(" 005 ") && l.contains(&format!("NETWORK={}", g.eff_network))), format!("005 NETWORK={}", g.eff_network)),
        (
            match g.max_joins {
                Some(m) => joined.contains(&format!("CHANLIMIT=&#:{}", m)),
                None => !joined.contains("CHANLIMIT="),
            },
            format!("005 CHANLIMIT for max_joins {:?}", g.max_joins),
        ),
        (lines.iter().any(|l| l.contains(" 372 ") && l.ends_with(&format!(":{}", g.motd))), format!("372 with the MOTD {:?}", g.motd)),
        (lines.iter().any(|l| l.contains(" 375 ") && l.contains(&g.eff_name)), "375 with the server name".into()),
    ];
    for (ok, what) in checks {
        if !ok {
            return Err(fail("C20.welcome_shows_settings", &format!("welcome:{}", what.split(' ').next().unwrap_or("")), format!("welcome burst lacks {}", what)));
        }
    }
    // default user modes
    let m221 = lines.iter().find(|l| l.contains(" 221 ")).cloned().unwrap_or_default();
    let got: String = {
        let mut v: Vec<char> = m221.rsplit(' ').next().unwrap_or("").chars().filter(|c| *c != '+').collect();
        v.sort();
        v.into_iter().collect()
    };
    let mut want: Vec<char> = g.default_modes.chars().collect();
    want.sort();
    let want: String = want.into_iter().collect();
    if got != want {
        return Err(fail("C20.default_user_modes", "default-modes", format!("221 shows +{} but default_user_modes is +{}", got, want)));
    }
    // the registered mode (+r) belongs to the users of the [[users]] section: a user that is not
    // listed there cannot give it to itself
    if !g.default_modes.contains('r') {
        w.send_line(conn, "MODE tester +r");
        w.send_line(conn, "MODE tester");
        w.settle();
        let ls = w.drain(conn);
        let refused = ls.iter().any(|l| l.contains(" 481 "));
        let has_r = ls.iter().any(|l| l.contains(" 221 ") && l.rsplit(' ').next().unwrap_or("").contains('r'));
        if !refused || has_r {
            return Err(fail("C20.registered_mode_from_users_section", "plus-r", format!("a user that is not in [[users]] sent MODE +r: {:?}", ls)));
        }
    }
    // ADMIN shows exactly the administrative lines the file has (the optional second line and the
    // e-mail address independently of each other), INFO / VERSION name the server
    w.send_line(conn, "ADMIN");
    w.settle();
    let ls = w.drain(conn);
    let has = |code: &str| ls.iter().any(|l| l.contains(&format!(" {} ", code)));
    let admin_ok = has("256")
        && ls.iter().any(|l| l.contains(" 257 ") && l.ends_with("some admin_info text"))
        && (has("258") == g.admin_info2)
        && (has("259") == g.admin_email)
        && (!g.admin_info2 || ls.iter().any(|l| l.contains(" 258 ") && l.ends_with("second line")))
        && (!g.admin_email || ls.iter().any(|l| l.contains(" 259 ") && l.ends_with("admin@example.org")));
    if !admin_ok {
        return Err(fail("C20.admin_shows_settings", "admin", format!("ADMIN does not show the configured administrative info (admin_info2 configured: {}, admin_email configured: {}): {:?}", g.admin_info2, g.admin_email, ls)));
    }
    // max_joins governs: the (max_joins+1)-th channel is refused with 405
    if let Some(m) = g.max_joins {
        if m <= 12 {
            // some channels one by one, then one comma list that crosses the quota: exactly the
            // remaining number is admitted, the others are refused with 405
            let single = s.pick(m + 1);
            for i in 0..single {
                w.send_line(conn, &format!("JOIN #j{}", i));
            }
            w.settle();
            w.drain(conn);
            let extra = 1 + s.pick(3);
            let names: Vec<String> = (0..(m - single + extra)).map(|i| format!("#l{}", i)).collect();
            w.send_line(conn, &format!("JOIN {}", names.join(",")));
            w.settle();
            let ls = w.drain(conn);
            let admitted = ls.iter().filter(|l| l.contains(" JOIN #l")).count();
            let refused = ls.iter().filter(|l| l.contains(" 405 ")).count();
            if admitted != m - single || refused != extra {
                return Err(fail(
                    "C20.max_joins",
                    "max-joins",
                    format!("max_joins = {}: after {} single JOINs a list of {} channels admitted {} and refused {} (expected {} and {})", m, single, names.len(), admitted, refused, m - single, extra),
                ));
            }
            w.send_line(conn, "JOIN #onemore");
            w.settle();
            let ls = w.drain(conn);
            if !ls.iter().any(|l| l.contains(" 405 ")) {
                return Err(fail("C20.max_joins", "max-joins", format!("max_joins = {} but channel #{} could be joined: {:?}", m, m + 1, ls)));
            }
            st.count("max_joins_probed");
        }
    }
    // max_connections governs: with the limit reached further connections are not served, and a
    // served connection that ends makes room again (however many were refused meanwhile)
    if let Some(m) = g.max_connections {
        if m <= 6 {
            let mut served = vec![conn];
            let probe = |w: &mut World, c: usize| -> bool {
                w.send_line(c, "PING slot");
                w.settle();
                w.drain(c).iter().any(|l| l.contains(" 451 ") || l.contains(" PONG "))
            };
            while served.len() < m {
                let c = w.connect();
                w.settle();
                if !probe(&mut w, c) {
                    return Err(fail("C20.max_connections", "max-connections", format!("max_connections = {} but connection #{} was not served", m, served.len() + 1)));
                }
                served.push(c);
            }
            for k in 0..(1 + s.pick(3)) {
                let c = w.connect();
                w.settle();
                if probe(&mut w, c) {
                    return Err(fail("C20.max_connections", "max-connections", format!("max_connections = {} but an extra connection ({}) was served", m, k + 1)));
                }
            }
            let gone = served.pop().unwrap();
            w.close(gone, crate::sim::CloseKind::Drop);
            w.settle();
            let c = w.connect();
            w.settle();
            if !probe(&mut w, c) {
                return Err(fail("C20.max_connections", "max-connections", format!("max_connections = {}: after a served connection ended a new one was refused", m)));
            }
            st.count("max_connections_probed");
        }
    }
    // ping_timeout and pong_timeout govern the keep-alive (virtual time): a fresh client that never
    // answers gets its first PING ping_timeout after registering and is dropped pong_timeout later
    if g.ping_timeout > 0 && g.pong_timeout > 0 && g.max_connections.map_or(true, |m| m > 8) && s.chance(35) {
        let k = w.connect();
        if g.password.is_some() {
            w.send_line(k, &format!("PASS :{}", g.password.clone().unwrap()));
        }
        w.send_line(k, "NICK silent");
        w.send_line(k, "USER silent 0 * :Silent");
        w.settle();
        w.drain(k);
        let t0 = w.now_ms();
        let (p, q) = (g.ping_timeout as u128 * 1000, g.pong_timeout as u128 * 1000);
        // just before the PING is due nothing has come
        w.advance(std::time::Duration::from_millis((p - 200) as u64));
        let early = w.drain(k);
        w.advance(std::time::Duration::from_millis(400));
        let at_ping = w.drain(k);
        let ping_ok = !early.iter().any(|l| l.contains(" PING ")) && at_ping.iter().any(|l| l.contains(" PING "));
        // the harness's other connections answer their PINGs meanwhile or are not of interest
        w.advance(std::time::Duration::from_millis((q - 400) as u64));
        w.drain(k);
        let still_there = !w.conns[k].eof;
        w.advance(std::time::Duration::from_millis(600));
        w.drain(k);
        let gone = w.conns[k].eof;
        st.count("timeouts_probed");
        if !(ping_ok && still_there && gone) {
            return Err(fail(
                "C20.timeouts_govern",
                "timeouts",
                format!(
                    "ping_timeout = {} s, pong_timeout = {} s: a silent client registered at t={} ms; PING exactly at +ping_timeout: {}; still connected just before +ping+pong: {}; dropped just after: {}",
                    g.ping_timeout, g.pong_timeout, t0, ping_ok, still_there, gone
                ),
            ));
        }
    }
    crate::sim::set_in_sim(false);
    let _ = crate::sim::take_panics();
    Ok(())
}

// ------------------------------------------------------------------------------ real binary
pub fn binary_path() -> String {
    std::env::var("SIRC_BIN").unwrap_or_else(|_| format!("{}/.build/repo-bin/debug/simple-irc-server", VERIF_DIR))
}

fn run_with_timeout(args: &[String], ms: u64) -> Option<(Option<i32>, String, String)> {
    let mut child = Command::new(binary_path())
        .args(args)
        .current_dir(tmp_dir())
        .stdin(Stdio::null())
        .stdout(Stdio::piped())
        .stderr(Stdio::piped())
        .spawn()
        .ok()?;
    let start = Instant::now();
    loop {
        match child.try_wait() {
            Ok(Some(status)) => {
                let mut o = String::new();
                let mut e = String::new();
                if let Some(mut x) = child.stdout.take() {
                    let _ = x.read_to_string(&mut o);
                }
                if let Some(mut x) = child.stderr.take() {
                    let _ = x.read_to_string(&mut e);
                }
                return Some((status.code(), o, e));
            }
            Ok(None) => {
                if start.elapsed() > Duration::from_millis(ms) {
                    let _ = child.kill();
                    let _ = child.wait();
                    return Some((None, String::new(), "still running".into()));
                }
                std::thread::sleep(Duration::from_millis(15));
            }
            Err(_) => return None,
        }
    }
}

pub fn check_binary(c: &CfgCase, st: &mut Stats) -> Result<(), Viol> {
    if !std::path::Path::new(&binary_path()).exists() {
        st.count("binary_missing");
        return Ok(());
    }
    let mut s = S::new(&c.seeds);
    s.raw();
    // -g prints exactly the hash of the given password
    if s.chance(35) {
        let pw = ["secret", "p\u{e4}ss", "two words", "x"][s.pick(4)].to_string();
        let Some((code, out, _)) = run_with_timeout(&["-g".into(), "-P".into(), pw.clone()], 20_000) else { return Ok(()) };
        let want = format!("Password Hash: {}", crate::argon2_hash_password(&pw));
        st.nontrivial(format!("gen-hash|{}", pw), || json!({"binary": "-g -P", "password": pw}));
        if code != Some(0) || out.trim() != want {
            return Err(Viol::new("C20.genhash_prints_hash", "genhash", format!("`-g -P {:?}` exited {:?} and printed {:?}, expected {:?}", pw, code, out.trim(), want)));
        }
        return Ok(());
    }
    let g = gen_config(&c.seeds, false);
    if g.valid && (g.toml.contains("[tls]") || g.overrides.contains(&"tls".to_string())) {
        // serving TLS needs a TLS-enabled build and real certificate files: not probed here
        st.count("binary_tls_config_skipped");
        return Ok(());
    }
    let path = write_tmp(&g.toml);
    let mut args = vec!["-c".to_string(), path.clone()];
    args.extend(g.cli.iter().cloned());
    // always a private port so that nothing well-known is touched
    let r = if g.valid {
        // a valid configuration serves: the process must still be running after a while (or have
        // failed only because the address cannot be bound in this sandbox)
        // (our own private address/port replace any generated -p / -l)
        let mut a2: Vec<String> = vec![];
        let mut skip = false;
        for a in &args {
            if skip {
                skip = false;
                continue;
            }
            if a == "-p" || a == "-l" {
                skip = true;
                continue;
            }
            a2.push(a.clone());
        }
        a2.extend(["-l".to_string(), "127.0.0.1".to_string(), "-p".to_string(), format!("{}", 20000 + (c.seeds.get(2).copied().unwrap_or(0) % 20000))]);
        run_with_timeout(&a2, 700)
    } else {
        run_with_timeout(&args, 10_000)
    };
    let _ = std::fs::remove_file(&path);
    let Some((code, _out, err)) = r else { return Ok(()) };
    st.nontrivial(format!("bin|{}|{:?}", g.valid, g.reasons.iter().map(|r| r.split(' ').take(2).collect::<Vec<_>>().join(" ")).collect::<Vec<_>>()), || {
        json!({"binary_start": if g.valid { "valid" } else { "invalid" }, "invalid_because": g.reasons, "cli": g.cli})
    });
    if g.valid {
        st.count("binary_valid_started");
        match code {
            None => Ok(()), // still serving when the probe ended
            Some(_) if err.contains("Address") || err.contains("bind") || err.contains("Permission") || err.contains("os error") => {
                st.count("binary_bind_unavailable");
                Ok(())
            }
            Some(cd) => Err(Viol::new("C20.valid_config_starts", "binary-valid-exit", format!("the binary exited with {} on a valid configuration: {}\ncli {:?}\n{}", cd, err, g.cli, g.toml))),
        }
    } else {
        st.count("binary_invalid_probed");
        match code {
            Some(cd) if cd != 0 => Ok(()),
            other => Err(Viol::new(
                "C20.invalid_config_exits",
                "binary-invalid-serves",
                format!("invalid configuration ({:?}): the binary {} instead of exiting with an error\ncli {:?}\n{}", g.reasons, match other { None => "kept running".to_string(), Some(c) => format!("exited with {}", c) }, g.cli, g.toml),
            )),
        }
    }
}

fn cfg_strat() -> impl Strategy<Value = CfgCase> {
    prop::collection::vec(any::<u16>(), 160).prop_map(|seeds| CfgCase { seeds })
}

// --------------------------------------------------------- sessions on a TOML-loaded config
// (1) the TOML text of a generated configuration loads to exactly the configuration it spells
// out (differential against the directly constructed structure); (2) a model-based session on a
// server built from that text behaves as the file says: configured channels exist with their
// topic, flags, key, limit and masks, every nick of a rank list gets every listed rank when it
// joins, operators authenticate with their name / password / mask, quota and default user modes
// apply.
pub fn check_toml_session(c: &crate::scenario::ScCase, st: &mut Stats) -> Result<(), Viol> {
    let spec = &crate::checks::mbchecks::C20G;
    let b = (spec.build)(&c.cfg);
    let text = b.cfg.to_toml();
    crate::sim::set_in_sim(true);
    let loaded = catch_unwind(AssertUnwindSafe(|| crate::cfgspec::load_toml(&text)));
    crate::sim::set_in_sim(false);
    let _ = crate::sim::take_panics();
    let direct = b.cfg.to_main_config_direct();
    match loaded {
        Ok(Ok(l)) => {
            if l != direct {
                let a = format!("{:?}", l);
                let d = format!("{:?}", direct);
                // first differing region, for the report
                let i = a.chars().zip(d.chars()).position(|(x, y)| x != y).unwrap_or(0);
                let lo = i.saturating_sub(80);
                return Err(Viol::new(
                    "C20.toml_means_what_it_says",
                    "toml-differs",
                    format!("the configuration file does not load to what it spells out; loaded ...{}... expected ...{}...\n{}", crate::checks::c05::clip(&a[a.char_indices().nth(lo).map_or(0, |x| x.0)..], 240), crate::checks::c05::clip(&d[d.char_indices().nth(lo).map_or(0, |x| x.0)..], 240), text),
                ));
            }
        }
        Ok(Err(e)) => return Err(Viol::new("C20.valid_config_starts", "valid-rejected", format!("valid configuration rejected: {}\n{}", e, text))),
        Err(_) => return Err(Viol::new("C20.valid_config_starts", "load-panic", format!("loading a valid configuration aborted\n{}", text))),
    }
    crate::cfgspec::VIA_TOML.with(|v| v.set(true));
    let r = crate::checks::mb::run_case(spec, c, st);
    crate::cfgspec::VIA_TOML.with(|v| v.set(false));
    r.map_err(|mut v| {
        v.explanation = format!("{}\n-- configuration file:\n{}", v.explanation, text);
        v
    })
}

pub fn run(ctx: &RunCtx) -> Vec<PartOutcome> {
    let mut parts = vec![];
    parts.push(explore(ctx, "validation", ctx.tier.pick(6_000, 100_000), cfg_strat, check_validation));
    parts.push(explore(ctx, "hash_roundtrip", ctx.tier.pick(1_500, 20_000), pw_strat, check_hash));
    match example_leaves() {
        Ok(leaves) => parts.push(enumerate(ctx, "documented_keys", leaves.len() as u64, |i| KeyCase { index: i }, check_key)),
        Err(e) => ctx.machinery(format!("config-example.toml: {}", e)),
    }
    parts.push(explore(ctx, "settings_govern", ctx.tier.pick(2_000, 30_000), cfg_strat, check_govern));
    parts.push(explore(
        ctx,
        "toml_sessions",
        ctx.tier.pick(2_500, 40_000),
        || crate::scenario::sc_strategy(crate::checks::mbchecks::C20G.ncfg, crate::checks::mbchecks::C20G.max_ops),
        check_toml_session,
    ));
    parts.push(explore_with(ctx, "binary", ctx.tier.pick(48, 600), 30, cfg_strat, check_binary));
    parts
}

pub fn replay(part: &str, input: &Value) -> Option<Result<Result<(), Viol>, String>> {
    match part {
        "validation" => Some(replay_input::<CfgCase>(input, check_validation)),
        "hash_roundtrip" => Some(replay_input::<PwCase>(input, check_hash)),
        "documented_keys" => Some(replay_input::<KeyCase>(input, check_key)),
        "settings_govern" => Some(replay_input::<CfgCase>(input, check_govern)),
        "toml_sessions" => Some(replay_input::<crate::scenario::ScCase>(input, check_toml_session)),
        "binary" => Some(replay_input::<CfgCase>(input, check_binary)),
        _ => None,
    }
}
