// C17 - keep-alive drops dead peers and keeps live ones (decided on Tokio's virtual clock).

use proptest::prelude::*;
use serde_derive::{Deserialize, Serialize};
use serde_json::{json, Value};
use std::time::Duration;

use crate::cfgspec::CfgSpec;
use crate::gen::S;
use crate::runner::*;
use crate::sim::World;

#[derive(Clone, Debug, Serialize, Deserialize)]
pub struct KaCase {
    pub seeds: Vec<u16>,
}

#[derive(Clone, Debug, PartialEq)]
enum Pattern {
    Always,
    Never,
    StopsAfter(usize),
    AlwaysOddToken,
    // answers every PING, but only `ms` after it arrived (always within pong_timeout)
    Late(u64),
}

struct Client {
    conn: usize,
    nick: String,
    pattern: Pattern,
    reg_ms: u128,
    pings: Vec<u128>,     // arrival times of server PINGs
    answered: usize,      // number of PINGs answered
    first_unanswered: Option<u128>,
    error_seen: bool,
    eof_ms: Option<u128>,
    my_pings: usize,
    my_pongs: usize,
    stray_pongs: usize,
    due_pongs: Vec<u128>,   // times at which a late client sends its PONGs
    fragment_pending: bool, // an unterminated line fragment sits in the server's input buffer
}

// serve the clients registered so far while somebody else takes its time (only used while every
// one of them is a prompt responder)
fn service_prompt(w: &mut World, clients: &mut Vec<Client>) {
    for cl in clients.iter_mut() {
        let ls = w.drain(cl.conn);
        for l in &ls {
            if l.contains(" PING ") {
                cl.pings.push(w.now_ms());
                if matches!(cl.pattern, Pattern::Always | Pattern::AlwaysOddToken) {
                    w.send_line(cl.conn, "PONG :LALAL");
                    cl.answered += 1;
                } else if cl.first_unanswered.is_none() {
                    cl.first_unanswered = Some(w.now_ms());
                }
            } else if l.contains(" ERROR") {
                cl.error_seen = true;
            }
        }
        if w.conns[cl.conn].eof && cl.eof_ms.is_none() {
            cl.eof_ms = Some(w.now_ms());
        }
    }
}

pub fn check(c: &KaCase, st: &mut Stats) -> Result<(), Viol> {
    let mut s = S::new(&c.seeds);
    let seed = s.raw() as u64;
    // ping/pong periods with all three relations
    let p: u64 = [1, 2, 3, 5, 8, 13, 30, 60, 120, 200][s.pick(10)];
    let rel = s.pick(3);
    let q: u64 = match rel {
        0 => (1 + s.pick(p.max(2) as usize - 1) as u64).min(p.saturating_sub(1)).max(1), // q < p (or 1)
        1 => p,
        _ => p + 1 + s.pick(100) as u64,
    };
    let relation = if q < p { "q<p" } else if q == p { "q=p" } else { "q>p" };
    let mut cfg = CfgSpec::default();
    cfg.ping_timeout = p;
    cfg.pong_timeout = q;
    let mut w = World::new(cfg.to_main_config(), seed);
    let step_ms: u64 = ((p.min(q) * 1000) / 4).clamp(100, 1000);
    let slack: u128 = step_ms as u128 + 100;
    let n = 1 + s.pick(4);
    let mut log: Vec<String> = vec![format!("ping_timeout={}s pong_timeout={}s step={}ms", p, q, step_ms)];
    let mut clients: Vec<Client> = vec![];
    let mut waited_for_refused = false;
    // (the connection that will be refused claims k0 while that nick is still free)
    let pre_conn: Option<usize> = if n >= 2 && s.chance(30) {
        let c = w.connect();
        w.send_line(c, "NICK k0");
        w.settle();
        w.drain(c);
        Some(c)
    } else {
        None
    };
    for i in 0..n {
        let pattern = match if i == 0 && pre_conn.is_some() { 0 } else { s.pick(10) } {
            0 | 1 => Pattern::Always,
            2 | 3 => Pattern::Never,
            4 | 5 | 6 => Pattern::StopsAfter(1 + s.pick(5)),
            7 => Pattern::AlwaysOddToken,
            _ => {
                // a delay of whole simulation steps, strictly below pong_timeout (with room for
                // one step of sampling error)
                let max_steps = ((q * 1000) / step_ms).saturating_sub(2);
                if max_steps >= 1 {
                    Pattern::Late((1 + s.pick(max_steps as usize) as u64) * step_ms)
                } else {
                    Pattern::Always
                }
            }
        };
        let conn = if i == 1 && pre_conn.is_some() { pre_conn.unwrap() } else { w.connect() };
        let nick = format!("k{}", i);
        // some clients are first refused (they ask for the nick of the first client, USER before
        // NICK so that the refusal comes at completion), wait longer than ping_timeout and only
        // then register under their own nick: the keep-alive starts with the registration
        if i == 1 && pre_conn.is_some() {
            // k0 has registered meanwhile: the USER that completes this connection is refused (433)
            w.send_line(conn, &format!("USER u{} 0 * :Keep Alive", i));
            w.settle();
            let refused = w.drain(conn);
            log.push(format!("t={} {} first asks for k0: {:?}", w.now_ms(), nick, refused.iter().map(|l| l.split(' ').nth(1).unwrap_or("").to_string()).collect::<Vec<_>>()));
            // everybody registered so far keeps answering meanwhile
            let wait_ms = p * 1000 + 300 + s.pick(((q * 1000).saturating_sub(500)).max(1) as usize) as u64;
            let mut waited = 0;
            while waited < wait_ms {
                let d = step_ms.min(wait_ms - waited);
                w.advance(Duration::from_millis(d));
                waited += d;
                service_prompt(&mut w, &mut clients);
                let early = w.drain(conn);
                if early.iter().any(|l| l.contains(" PING ")) {
                    return Err(Viol::new("C17.ping_cadence", "ping-before-registration", format!("{} got a server PING before it was registered: {:?}", nick, early)).with_transcript(log.clone()));
                }
            }
            w.send_line(conn, &format!("NICK {}", nick));
            waited_for_refused = true;
        } else {
            w.send_line(conn, &format!("NICK {}", nick));
            w.send_line(conn, &format!("USER u{} 0 * :Keep Alive", i));
        }
        w.settle();
        let ls = w.drain(conn);
        if !ls.iter().any(|l| l.contains(" 001 ")) {
            return Err(Viol::new("C17.setup", "no-welcome", format!("client {} did not register: {:?}", nick, ls)));
        }
        // some clients re-open a capability negotiation after registration and never end it:
        // keep-alive must not depend on that
        if s.chance(25) {
            w.send_line(conn, ["CAP LS 302", "CAP REQ :multi-prefix", "CAP LIST", "CAP END", "CAP REQ :multi-prefix\r\nCAP END"][s.pick(5)]);
            w.settle();
            w.drain(conn);
            log.push(format!("t={} {} sent a CAP command after registration", w.now_ms(), nick));
        }
        // some prompt responders leave the beginning of a line in the server's input buffer and
        // complete it only when the next PING arrives: pending input must not hold back output
        let fragment = pattern == Pattern::Always && !(i == 0 && pre_conn.is_some()) && s.chance(20);
        if fragment {
            w.send_bytes(conn, b"PRIV");
            w.settle();
            log.push(format!("t={} {} > PRIV (unterminated)", w.now_ms(), nick));
        }
        log.push(format!("t={} {} registered, pattern {:?}", w.now_ms(), nick, pattern));
        clients.push(Client {
            conn,
            nick,
            pattern,
            reg_ms: w.now_ms(),
            pings: vec![],
            answered: 0,
            first_unanswered: None,
            error_seen: false,
            eof_ms: None,
            my_pings: 0,
            my_pongs: 0,
            stray_pongs: 0,
            due_pongs: vec![],
            fragment_pending: fragment,
        });
        // stagger registrations a little
        if s.chance(50) {
            // (kept well below one ping period in total so that no PING predates the main loop)
            let max = ((p * 1000) / (3 * n as u64)).clamp(1, 700) as usize;
            w.advance(Duration::from_millis(1 + s.pick(max) as u64));
            if waited_for_refused {
                service_prompt(&mut w, &mut clients);
            }
        }
    }
    let horizon_ms: u128 = (p as u128 * 1000) * (4 + s.pick(8)) as u128 + (q as u128 * 1000) + 2000;
    let start = w.now_ms();
    let mut tick = 0u64;
    let fail = |pred: &str, sig: String, msg: String, log: &Vec<String>| -> Viol {
        Viol::new(pred, sig, msg).with_transcript(log.iter().rev().take(60).rev().cloned().collect())
    };
    while w.now_ms() - start < horizon_ms {
        w.advance(Duration::from_millis(step_ms));
        tick += 1;
        let now = w.now_ms();
        for ci in 0..clients.len() {
            let conn = clients[ci].conn;
            if clients[ci].eof_ms.is_some() {
                continue;
            }
            // a late client sends the answers that have become due
            let due: Vec<u128> = clients[ci].due_pongs.iter().cloned().filter(|t| *t <= now).collect();
            if !due.is_empty() {
                clients[ci].due_pongs.retain(|t| *t > now);
                for _ in &due {
                    w.send_line(conn, "PONG :LALAL");
                    clients[ci].answered += 1;
                    log.push(format!("t={} {} > PONG :LALAL (late)", now, clients[ci].nick));
                }
                w.settle();
            }
            let ls = w.drain(conn);
            if clients[ci].fragment_pending && ls.iter().any(|l| l.contains(" PING ")) {
                // complete the pending line first (it becomes a PRIVMSG to itself)
                w.send_line(conn, &format!("MSG {} :fragment completed", clients[ci].nick));
                clients[ci].fragment_pending = false;
                log.push(format!("t={} {} > MSG ... (completes the pending line)", now, clients[ci].nick));
            }
            if std::env::var("VERIF_DEBUG_C17").is_ok() && now > 101000 {
                eprintln!("tick t={} c{} lines={:?} horizon_end={}", now, ci, ls, start + horizon_ms);
            }
            for l in &ls {
                if l.contains(" PING ") {
                    clients[ci].pings.push(now);
                    log.push(format!("t={} {} < {}", now, clients[ci].nick, l));
                    let k = clients[ci].pings.len();
                    let answer = match clients[ci].pattern {
                        Pattern::Always | Pattern::AlwaysOddToken => true,
                        Pattern::Never => false,
                        Pattern::StopsAfter(m) => k <= m,
                        Pattern::Late(ms) => {
                            let t = w.now_ms();
                            clients[ci].due_pongs.push(t + ms as u128);
                            false
                        }
                    };
                    if answer {
                        let tok = if clients[ci].pattern == Pattern::AlwaysOddToken { ":something else entirely" } else { ":LALAL" };
                        w.send_line(conn, &format!("PONG {}", tok));
                        clients[ci].answered += 1;
                        log.push(format!("t={} {} > PONG {}", now, clients[ci].nick, tok));
                    } else if clients[ci].first_unanswered.is_none() && !matches!(clients[ci].pattern, Pattern::Late(_)) {
                        clients[ci].first_unanswered = Some(now);
                    }
                } else if l.contains(" ERROR") {
                    clients[ci].error_seen = true;
                    log.push(format!("t={} {} < {}", now, clients[ci].nick, l));
                } else if l.contains(" PONG ") {
                    clients[ci].my_pongs += 1;
                    // (a PONG that arrives late: the token may carry the trailing blank it was sent with)
                    let want = format!(":my{}", clients[ci].my_pings);
                    if !l.trim_end_matches(' ').ends_with(&want) {
                        return Err(fail("C17.pong_echoes_token", "pong-token".into(), format!("{} sent PING my{} and got `{}`", clients[ci].nick, clients[ci].my_pings, l), &log));
                    }
                }
            }
            if w.conns[conn].eof {
                clients[ci].eof_ms = Some(now);
                log.push(format!("t={} {} EOF", now, clients[ci].nick));
                continue;
            }
            // an unsolicited PONG while no server PING is outstanding (and none is due within the
            // next moments) answers nothing: it must not count for a later PING
            if clients[ci].fragment_pending {
                continue;
            }
            if clients[ci].first_unanswered.is_none() && clients[ci].answered == clients[ci].pings.len() && s.chance(15) {
                let next_ping = clients[ci].reg_ms + (clients[ci].pings.len() as u128 + 1) * p as u128 * 1000;
                if now + 50 < next_ping {
                    w.send_line(conn, "PONG :nobody asked");
                    w.settle();
                    clients[ci].stray_pongs += 1;
                    log.push(format!("t={} {} > PONG :nobody asked (unsolicited)", now, clients[ci].nick));
                }
            }
            // unrelated traffic: the client's own PINGs and messages do not count as answers
            if (tick + ci as u64) % 3 == 0 && s.chance(40) {
                clients[ci].my_pings += 1;
                let t = format!("my{}", clients[ci].my_pings);
                // (the RFC form with a second parameter naming the server is answered alike)
                // rarely a token close to the line limit (the PONG is longer than the PING)
                let t = if clients[ci].my_pings % 11 == 7 { format!("{}{}", "T".repeat(1975), t) } else { t };
                // (sometimes the token ends in a blank: it comes back with it)
                let t = if clients[ci].my_pings % 7 == 3 { format!("{} ", t) } else { t };
                let form = match clients[ci].my_pings % 3 {
                    0 if !t.ends_with(' ') => format!("PING {} irc.irc", t),
                    0 | 1 => format!("PING :{}", t),
                    _ if t.ends_with(' ') => format!("PING :{}", t),
                    _ => format!("PING {}", t),
                };
                // (a client may put its own nick in front as a source: it changes nothing)
                let form = if clients[ci].my_pings % 5 == 2 { format!(":{} {}", clients[ci].nick, form) } else { form };
                // every now and then a PING with an empty token first: it is answered (with the
                // empty token) like any other
                if clients[ci].my_pings % 5 == 4 {
                    w.send_line(conn, "PING :");
                    w.settle();
                    let ls = w.drain(conn);
                    let mut ok = false;
                    for l in &ls {
                        if l.contains(" PONG ") {
                            ok = l.ends_with(" :");
                        } else if l.contains(" PING ") {
                            clients[ci].pings.push(w.now_ms());
                            log.push(format!("t={} {} < {} (seen while waiting for its own PONG)", w.now_ms(), clients[ci].nick, l));
                            let k = clients[ci].pings.len();
                            let answer = match clients[ci].pattern {
                                Pattern::Always | Pattern::AlwaysOddToken => true,
                                Pattern::Never => false,
                                Pattern::StopsAfter(m) => k <= m,
                                Pattern::Late(ms) => {
                                    let t = w.now_ms();
                                    clients[ci].due_pongs.push(t + ms as u128);
                                    false
                                }
                            };
                            if answer {
                                w.send_line(conn, "PONG :LALAL");
                                clients[ci].answered += 1;
                            } else if clients[ci].first_unanswered.is_none() && !matches!(clients[ci].pattern, Pattern::Late(_)) {
                                clients[ci].first_unanswered = Some(w.now_ms());
                            }
                        } else if l.contains(" ERROR") {
                            clients[ci].error_seen = true;
                        }
                    }
                    if !ok && !w.conns[conn].eof {
                        return Err(fail("C17.pong_echoes_token", "no-pong-empty-token".into(), format!("{} sent `PING :` and got {:?}", clients[ci].nick, ls), &log));
                    }
                }
                w.send_line(conn, &form);
                w.settle();
                let ls = w.drain(conn);
                let mut got = false;
                for l in &ls {
                    if l.contains(" PONG ") {
                        got = l.ends_with(&format!(":{}", t));
                        clients[ci].my_pongs += 1;
                    } else if l.contains(" PING ") {
                        // a server PING that arrived in between
                        clients[ci].pings.push(w.now_ms());
                        log.push(format!("t={} {} < {} (seen while waiting for its own PONG)", w.now_ms(), clients[ci].nick, l));
                        let k = clients[ci].pings.len();
                        let answer = match clients[ci].pattern {
                            Pattern::Always | Pattern::AlwaysOddToken => true,
                            Pattern::Never => false,
                            Pattern::StopsAfter(m) => k <= m,
                            Pattern::Late(ms) => {
                                let t = w.now_ms();
                                clients[ci].due_pongs.push(t + ms as u128);
                                false
                            }
                        };
                        if answer {
                            w.send_line(conn, "PONG :LALAL");
                            clients[ci].answered += 1;
                        } else if clients[ci].first_unanswered.is_none() && !matches!(clients[ci].pattern, Pattern::Late(_)) {
                            clients[ci].first_unanswered = Some(w.now_ms());
                        }
                    } else if l.contains(" ERROR") {
                        clients[ci].error_seen = true;
                    }
                }
                if !got && !w.conns[conn].eof {
                    return Err(fail("C17.pong_echoes_token", "no-pong".into(), format!("{} sent PING {} and got {:?}", clients[ci].nick, t, ls), &log));
                }
                if s.chance(30) {
                    w.send_line(conn, &format!("PRIVMSG {} :still here", clients[ci].nick));
                    w.settle();
                    // lines that arrive meanwhile (a server PING may be among them) are handled
                    // like everywhere else
                    for l in w.drain(conn) {
                        if l.contains(" PING ") {
                            clients[ci].pings.push(w.now_ms());
                            log.push(format!("t={} {} < {} (seen after its own PRIVMSG)", w.now_ms(), clients[ci].nick, l));
                            let k = clients[ci].pings.len();
                            let answer = match clients[ci].pattern {
                                Pattern::Always | Pattern::AlwaysOddToken => true,
                                Pattern::Never => false,
                                Pattern::StopsAfter(m) => k <= m,
                                Pattern::Late(ms) => {
                                    let t = w.now_ms();
                                    clients[ci].due_pongs.push(t + ms as u128);
                                    false
                                }
                            };
                            if answer {
                                w.send_line(conn, "PONG :LALAL");
                                clients[ci].answered += 1;
                            } else if clients[ci].first_unanswered.is_none() && !matches!(clients[ci].pattern, Pattern::Late(_)) {
                                clients[ci].first_unanswered = Some(w.now_ms());
                            }
                        } else if l.contains(" ERROR") {
                            clients[ci].error_seen = true;
                        }
                    }
                }
            }
        }
        let _ = crate::sim::take_panics();
    }
    // verdicts
    for cl in &clients {
        let pat = format!("{:?}", cl.pattern);
        let class = match cl.pattern {
            Pattern::Always | Pattern::AlwaysOddToken | Pattern::Late(_) => "responder",
            Pattern::Never => "silent",
            Pattern::StopsAfter(_) => "stops",
        };
        st.count(&format!("pattern.{}.{}", class, relation));
        // (2) cadence: the i-th PING arrives at registration + i*p
        for (i, t) in cl.pings.iter().enumerate() {
            let expect = cl.reg_ms + (i as u128 + 1) * p as u128 * 1000;
            let diff = if *t > expect { *t - expect } else { expect - *t };
            if diff > slack + 5 && std::env::var("VERIF_DEBUG_C17").is_ok() {
                eprintln!("pings of {} (reg {}): {:?}", cl.nick, cl.reg_ms, cl.pings);
            }
            if diff > slack + 5 {
                return Err(fail(
                    "C17.ping_cadence",
                    format!("cadence:{}", relation),
                    format!("{}: server PING #{} arrived at t={} ms, expected about {} ms (ping_timeout {} s)", cl.nick, i + 1, t, expect, p),
                    &log,
                ));
            }
        }
        // no PING may be missing either: while the client is connected a PING is due every
        // ping_timeout, whether or not earlier ones have been answered
        let alive_until = cl.eof_ms.unwrap_or(start + horizon_ms);
        let due = (1..).take_while(|i| cl.reg_ms + (*i as u128) * p as u128 * 1000 + slack + (step_ms as u128) < alive_until).count();
        if cl.pings.len() < due {
            return Err(fail(
                "C17.ping_cadence",
                format!("ping-missing:{}:{}", relation, class),
                format!("{} ({}) was connected until t={} ms and got {} server PINGs; with ping_timeout {} s {} were due (pong_timeout {} s)", cl.nick, pat, alive_until, cl.pings.len(), p, due, q),
                &log,
            ));
        }
        let k = cl.pings.len();
        if k >= 2 && (relation != "q<p" || class != "responder") {
            st.nontrivial(format!("{}|{}|{}|p{}", relation, class, if let Pattern::StopsAfter(m) = cl.pattern { m } else { 0 }, p), || {
                json!({"ping_timeout": p, "pong_timeout": q, "pattern": pat, "pings_seen": k, "closed_at_ms": cl.eof_ms.map(|x| x as u64)})
            });
        }
        match class {
            "responder" => {
                if cl.eof_ms.is_some() || cl.error_seen {
                    return Err(fail(
                        "C17.responder_kept",
                        format!("responder-dropped:{}", relation),
                        format!("{} answered every server PING ({} of {}) but was disconnected (ping {} s, pong {} s)", cl.nick, cl.answered, k, p, q),
                        &log,
                    ));
                }
                if k == 0 {
                    return Err(fail("C17.ping_cadence", format!("no-ping:{}", relation), format!("{} never received a server PING within {} ms", cl.nick, horizon_ms), &log));
                }
            }
            _ => {
                // silent from the first unanswered PING on: ERROR + EOF by t_k + q (+ slack)
                if let Some(t0) = cl.first_unanswered {
                    let deadline = t0 + q as u128 * 1000 + slack;
                    let end_of_run = start + horizon_ms;
                    if deadline < end_of_run {
                        match cl.eof_ms {
                            Some(t) if t <= deadline + step_ms as u128 => {
                                if !cl.error_seen {
                                    return Err(fail("C17.silent_gets_error", format!("no-error:{}", relation), format!("{} was disconnected without an ERROR line", cl.nick), &log));
                                }
                                if t + slack + (step_ms as u128) < t0 + q as u128 * 1000 {
                                    return Err(fail(
                                        "C17.silent_dropped_in_time",
                                        format!("dropped-early:{}", relation),
                                        format!("{} was disconnected at t={} ms, {} ms after the unanswered PING, before pong_timeout {} s elapsed", cl.nick, t, t - t0, q),
                                        &log,
                                    ));
                                }
                            }
                            other => {
                                return Err(fail(
                                    "C17.silent_dropped_in_time",
                                    format!("silent-not-dropped:{}", relation),
                                    format!(
                                        "{} ({}) left the PING of t={} ms unanswered; with pong_timeout {} s it must be gone by t={} ms but {} (ping_timeout {} s)",
                                        cl.nick,
                                        pat,
                                        t0,
                                        q,
                                        deadline,
                                        match other {
                                            Some(t) => format!("was only closed at t={} ms", t),
                                            None => format!("is still connected at t={} ms", end_of_run),
                                        },
                                        p
                                    ),
                                    &log,
                                ));
                            }
                        }
                    }
                }
            }
        }
    }
    // a client the keep-alive has disconnected is gone for everybody: a fresh connection does not
    // find its nick any more, and finds every client that is still connected
    let gone: Vec<String> = clients.iter().filter(|c| c.eof_ms.is_some()).map(|c| c.nick.clone()).collect();
    // (only clients that have answered everything must still be there: one that has fallen silent
    // may be dropped at any moment, also between the last sample and the probe)
    let alive: Vec<String> = clients.iter().filter(|c| c.eof_ms.is_none() && c.first_unanswered.is_none() && c.due_pongs.is_empty()).map(|c| c.nick.clone()).collect();
    if !gone.is_empty() {
        let pc = w.connect();
        w.send_line(pc, "NICK kprobe");
        w.send_line(pc, "USER up 0 * :Probe");
        w.settle();
        w.drain(pc);
        let all: Vec<String> = clients.iter().map(|c| c.nick.clone()).collect();
        w.send_line(pc, &format!("ISON {}", all.join(" ")));
        w.settle();
        let ls = w.drain(pc);
        let present: Vec<String> = ls
            .iter()
            .filter(|l| l.contains(" 303 "))
            .flat_map(|l| l.rsplit(':').next().unwrap_or("").split(' ').map(|x| x.to_string()).collect::<Vec<_>>())
            .filter(|x| !x.is_empty())
            .collect();
        st.count("gone_probes");
        log.push(format!("t={} probe: ISON {} -> {:?}", w.now_ms(), all.join(" "), present));
        for g in &gone {
            if present.contains(g) {
                return Err(fail("C17.dropped_client_is_gone", "ghost-after-timeout".into(), format!("{} was disconnected by the keep-alive but its nick is still registered (ISON lists it)", g), &log));
            }
        }
        for a in &alive {
            if !present.contains(a) {
                return Err(fail("C17.responder_kept", "responder-vanished".into(), format!("{} is still connected but ISON does not list it", a), &log));
            }
        }
    }
    crate::sim::set_in_sim(false);
    let _ = crate::sim::take_panics();
    Ok(())
}

fn strat() -> impl Strategy<Value = KaCase> {
    prop::collection::vec(any::<u16>(), 40).prop_map(|seeds| KaCase { seeds })
}

pub fn run(ctx: &RunCtx) -> Vec<PartOutcome> {
    let n = ctx.tier.pick(15_000, 800_000);
    vec![explore(ctx, "virtual_time", n, strat, check)]
}

pub fn replay(part: &str, input: &Value) -> Option<Result<Result<(), Viol>, String>> {
    match part {
        "virtual_time" => Some(replay_input::<KaCase>(input, check)),
        _ => None,
    }
}
