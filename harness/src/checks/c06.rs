// C06 - every way a session ends leaves no trace in the live state (fault enumeration).
// For every generated history, every cut point and every end kind: replay the prefix in a fresh
// world, end the victim's session that way, and let the survivors probe.

use serde_json::{json, Value};

use crate::cfgspec::{CfgSpec, OperSpec};
use crate::checks::mb::Built;
use crate::engine::{Disc, Engine, StepOut};
use crate::gen::{registered_conns, Op, Profile, K, S};
use crate::runner::*;
use crate::scenario::*;
use crate::sim::CloseKind;

pub const END_KINDS: &[&str] = &[
    "quit", "close", "close-mid-line", "close-unread-output", "half-close", "invalid-utf8", "over-long-line", "kill", "pong-timeout", "kill-twice", "command-and-close", "quit-and-close",
];

fn build(cfg: &[u16]) -> Built {
    let mut s = S::new(cfg);
    s.raw();
    let users = 3 + s.pick(3);
    let mut c = CfgSpec::default();
    c.opers.push(OperSpec { name: "op0".into(), password: "operpw0".into(), mask: None });
    c.ping_timeout = 50;
    c.pong_timeout = 5;
    // user modes every new user starts with (they take part in the counters a session end undoes)
    c.default_modes = ["", "", "", "", "O", "o", "i", "w", "Ow", "iw", "Oi"][s.pick(11)].to_string();
    // a join quota: a refused JOIN must leave nothing behind that a session end would have to undo
    c.max_joins = [None, None, Some(1), Some(2), Some(3)][s.pick(5)];
    let mut prof = Profile::base().with(&[
        (K::Join, 24),
        (K::ModeChan, 18),
        (K::ModeUser, 8),
        (K::Invite, 8),
        (K::Away, 5),
        (K::Nick, 12),
        (K::Part, 5),
        (K::Oper, 6),
        (K::Kick, 4),
        (K::Topic, 3),
        (K::Privmsg, 4),
        (K::NewUser, 4),
        (K::CapPost, 10),
    ]);
    prof.oper_names.push(("op0".into(), "operpw0".into()));
    let mut setup = vec![];
    if s.chance(50) {
        c.channels.push(crate::cfgspec::ChanSpec { name: "#pre0".into(), topic: Some("configured".into()), flags: "nt".into(), operators: vec!["n1".into()], ..Default::default() });
        prof.chans.push("#pre0".into());
        for i in 1..users {
            if s.chance(50) {
                setup.push((format!("n{}", i), "JOIN #pre0".to_string()));
            }
        }
    }
    // members with multi-flag ranks in #c1 (granted by its founder n0)
    setup.push(("n0".to_string(), "JOIN #c1".to_string()));
    for i in 1..users {
        if s.chance(60) {
            setup.push((format!("n{}", i), "JOIN #c1".to_string()));
            let flags = ["v", "h", "o", "ho", "hv", "ov", "ao", "hov", "a", "v", "v"][s.pick(11)];
            for f in flags.chars() {
                setup.push(("n0".to_string(), format!("MODE #c1 +{} n{}", f, i)));
            }
        }
    }
    // n0 is an IRC operator (needed for KILL and WALLOPS probes) and owns an invite-only channel
    setup.push(("n0".to_string(), "OPER op0 operpw0".to_string()));
    setup.push(("n0".to_string(), "JOIN #inv".to_string()));
    setup.push(("n0".to_string(), "MODE #inv +i".to_string()));
    for i in 1..users {
        if s.chance(50) {
            setup.push(("n0".to_string(), format!("INVITE n{} #inv", i)));
        }
        if s.chance(60) {
            setup.push((format!("n{}", i), "JOIN #c0".to_string()));
        }
        if s.chance(40) {
            setup.push((format!("n{}", i), format!("MODE n{} +{}", i, ["w", "i", "iw"][s.pick(3)])));
        }
    }
    // somebody has already changed nick before the history starts (ranks, invitations, modes and
    // memberships were acquired under the old one)
    if s.chance(40) {
        let i = 1 + s.pick(users - 1);
        setup.push((format!("n{}", i), format!("NICK n{}r", i)));
    }
    Built { cfg: c, prof, prelude_users: users, setup }
}

fn tail_sent(log: &[String]) -> Vec<String> {
    let v: Vec<String> = log.iter().filter(|l| l.contains(" > ")).cloned().collect();
    v[v.len().saturating_sub(12)..].to_vec()
}

fn owns_all(d: &Disc, _o: &StepOut) -> bool {
    !matches!(d, Disc::Framing { .. } | Disc::Malformed { .. })
}

// answer server PINGs on every connection except `silent` while advancing virtual time
fn advance_answering(eng: &mut Engine, ms_total: u64, silent: Option<usize>) {
    let mut t = 0;
    while t < ms_total {
        eng.world.advance(std::time::Duration::from_millis(500));
        t += 500;
        for c in 0..eng.world.conns.len() {
            if Some(c) == silent {
                continue;
            }
            let ls = eng.world.drain(c);
            let mut ping = false;
            for l in &ls {
                eng.log.push(format!("c{} < {}", c, l));
                if l.contains(" PING ") {
                    ping = true;
                }
            }
            if ping && eng.world.conns[c].io.is_some() && !eng.world.conns[c].eof {
                eng.world.send_line(c, "PONG :LALAL");
            }
        }
    }
    eng.world.settle();
}

// run prelude + setup + the first `cut` generated ops; None if the model lost sync (foreign)
// A handler that aborts ends its session without any clean-up: whatever the cause, the user is
// left behind as a ghost - the session-end property is violated on the spot.
fn abort_in(eng: &Engine, o: &StepOut) -> Option<Viol> {
    for d in &o.discs {
        if let Disc::Panic { conn, msg, loc } = d {
            let mut t = eng.tail(30);
            t.push(format!("-- step: {}", o.sent));
            return Some(
                Viol::new(
                    "C06.panic",
                    format!("prefix-abort:{}", o.sent.split(' ').next().unwrap_or("")),
                    format!("after `{}` the handler of c{:?} aborted ({} at {}): its session ended without clean-up", o.sent, conn, msg, loc),
                )
                .with_transcript(t),
            );
        }
    }
    None
}

fn run_prefix(b: &Built, case: &ScCase, cut: usize, st: &mut Stats) -> Result<Option<Engine>, Viol> {
    let seed = case.cfg.get(0).copied().unwrap_or(0) as u64;
    let mut eng = Engine::new(&b.cfg, seed);
    // a surplus reply on the acting connection alone does not mean that the model lost the
    // state: it is tolerated (counted) so that the end-of-session clean-up is still judged
    let ok = |eng: &Engine, o: &StepOut| {
        let _ = eng;
        // (so is a different number in the LUSERS block of the actor's own welcome / LUSERS reply:
        // the counters are C19's, the visible state is where the model has it)
        const COUNTERS: [&str; 7] = ["251", "252", "253", "254", "255", "265", "266"];
        o.discs.is_empty()
            || o.discs.iter().all(|d| match d {
                Disc::Extra { conn, line } if Some(*conn) == o.actor && line[0] == "S" => true,
                Disc::Missing { conn, line } if Some(*conn) == o.actor && line[0] == "S" && COUNTERS.contains(&line[1].as_str()) => true,
                _ => false,
            })
    };
    for i in 0..b.prelude_users {
        let (_, outs) = eng.register(&b.prof.nicks[i], &format!("u{}", i));
        for o in outs {
            if let Some(v) = abort_in(&eng, &o) {
                return Err(v);
            }
            if !ok(&eng, &o) {
                st.count("abandoned_foreign");
                return Ok(None);
            }
        }
    }
    for (nick, line) in &b.setup {
        if let Some(c) = eng.model.conn_of(nick) {
            let o = eng.line(c, line);
            if let Some(v) = abort_in(&eng, &o) {
                return Err(v);
            }
            if !ok(&eng, &o) {
                st.count("abandoned_foreign");
                return Ok(None);
            }
        }
    }
    for seedv in case.ops.iter().take(cut) {
        let Some(op) = next_op(&eng, &b.prof, seedv) else { break };
        if let Op::Close(..) = op {
            continue;
        }
        for o in apply_op(&mut eng, &op) {
            if let Some(v) = abort_in(&eng, &o) {
                return Err(v);
            }
            if !ok(&eng, &o) {
                st.count("abandoned_foreign");
                return Ok(None);
            }
        }
    }
    Ok(Some(eng))
}

fn viol_from(eng: &Engine, o: &StepOut, kind: &str, what: &str) -> Viol {
    let pol = Policy { id: "C06", owns: &owns_all };
    match judge(&pol, eng, o) {
        Verdict::Violation(mut v) => {
            v.signature = format!("{}:{}", kind, v.signature);
            v.explanation = format!("session ended by {} ({}): {}", kind, what, v.explanation);
            v
        }
        _ => Viol::new("C06", format!("{}:unknown", kind), what.to_string()),
    }
}

fn end_session(eng: &mut Engine, victim: usize, kind: &str, killer: Option<usize>) -> Result<bool, Viol> {
    // returns Ok(false) if this end kind is not applicable in the current state
    let vnick = eng.model.nick_of(victim).unwrap().to_string();
    match kind {
        "quit" => {
            let o = eng.line(victim, "QUIT");
            if !o.discs.is_empty() {
                return Err(viol_from(eng, &o, kind, "QUIT"));
            }
        }
        "close" => {
            let o = eng.close(victim, CloseKind::Drop);
            if !o.discs.is_empty() {
                return Err(viol_from(eng, &o, kind, "socket closed at a line boundary"));
            }
        }
        "half-close" => {
            let o = eng.close(victim, CloseKind::HalfClose);
            if !o.discs.is_empty() {
                return Err(viol_from(eng, &o, kind, "write side shut down"));
            }
        }
        "command-and-close" | "quit-and-close" => {
            // the last line and the close arrive together: whatever the server answers can no
            // longer be delivered (its write fails)
            let line = if kind == "quit-and-close" { "QUIT :gone at once\r\n".to_string() } else { format!("LUSERS\r\nWHOIS {}\r\n", vnick) };
            eng.world.send_bytes(victim, line.as_bytes());
            let o = eng.close(victim, CloseKind::Drop);
            if !o.discs.is_empty() {
                return Err(viol_from(eng, &o, kind, "last line and close arrive together"));
            }
        }
        "close-mid-line" => {
            eng.world.send_bytes(victim, b"PRIVMSG n0 :this line is never fin");
            eng.world.settle();
            let o = eng.close(victim, CloseKind::Drop);
            if !o.discs.is_empty() {
                return Err(viol_from(eng, &o, kind, "socket closed in the middle of a line"));
            }
        }
        "close-unread-output" => {
            // somebody floods the victim, which never reads, then the victim vanishes
            let Some(k) = killer else { return Ok(false) };
            for i in 0..40 {
                eng.world.send_line(k, &format!("PRIVMSG {} :unread filler line number {} {}", vnick, i, "x".repeat(200)));
            }
            eng.world.settle();
            // survivors drain; the victim does not
            for c in 0..eng.world.conns.len() {
                if c != victim {
                    eng.world.drain(c);
                }
            }
            let o = eng.close(victim, CloseKind::Drop);
            if !o.discs.is_empty() {
                return Err(viol_from(eng, &o, kind, "socket closed with unread output pending"));
            }
        }
        "invalid-utf8" | "over-long-line" => {
            let bytes: Vec<u8> = if kind == "invalid-utf8" {
                b"PRIVMSG n0 :\xff\xfe bad text\r\n".to_vec()
            } else {
                format!("PRIVMSG n0 :{}\r\n", "y".repeat(2100)).into_bytes()
            };
            eng.log.push(format!("c{} > ({})", victim, kind));
            eng.world.send_bytes(victim, &bytes);
            eng.world.settle();
            // a fatal protocol error may close the connection (C05); if the server keeps it
            // open the end kind does not apply
            eng.world.drain(victim);
            if !eng.world.conns[victim].eof {
                for c in 0..eng.world.conns.len() {
                    eng.world.drain(c);
                }
                return Ok(false);
            }
            eng.model.on_close(victim);
            eng.eof_known[victim] = true;
            eng.self_closed[victim] = true;
            for c in 0..eng.world.conns.len() {
                eng.world.drain(c);
            }
        }
        "kill" => {
            let Some(k) = killer else { return Ok(false) };
            let o = eng.line(k, &format!("KILL {} :enumerated fault", vnick));
            if !o.discs.is_empty() {
                return Err(viol_from(eng, &o, kind, "KILL by an operator"));
            }
        }
        "kill-twice" => {
            // the operator's two KILLs of the same nick arrive in one write: the second one finds
            // the victim either still there (its task has not run yet) or gone - the killer gets
            // 401 at most, nobody else sees anything more than for one KILL
            let Some(k) = killer else { return Ok(false) };
            eng.log.push(format!("c{} > KILL {} :first / KILL {} :second (one write)", k, vnick, vnick));
            eng.world.send_bytes(k, format!("KILL {} :first\r\nKILL {} :second\r\n", vnick, vnick).as_bytes());
            eng.world.settle();
            eng.world.settle();
            for p in crate::sim::take_panics() {
                if let Some(t) = p.task {
                    let mut tr = eng.tail(30);
                    tr.push(format!("-- handler of c{} aborted: {} at {}", t, p.msg, p.loc));
                    return Err(Viol::new("C06.panic", "kill-twice:panic", format!("session ended by two pipelined KILLs: the handler of c{} aborted: {} at {}", t, p.msg, p.loc)).with_transcript(tr));
                }
            }
            let kl = eng.world.drain(k);
            for l in &kl {
                eng.log.push(format!("c{} < {}", k, l));
            }
            eng.world.drain(victim);
            if !eng.world.conns[victim].eof {
                let tr = eng.tail(30);
                return Err(Viol::new("C06.kill_ends_session", "kill-twice:not-closed", format!("{} was killed twice and is still connected", vnick)).with_transcript(tr));
            }
            if eng.world.conns[k].eof {
                let tr = eng.tail(30);
                return Err(Viol::new("C06.nothing_else_changes", "kill-twice:killer-closed", "the operator's connection was closed by its own second KILL".to_string()).with_transcript(tr));
            }
            eng.model.on_close(victim);
            eng.eof_known[victim] = true;
            eng.self_closed[victim] = true;
            for c in 0..eng.world.conns.len() {
                eng.world.drain(c);
            }
        }
        "pong-timeout" => {
            advance_answering(eng, 62_000, Some(victim));
            eng.world.drain(victim);
            if !eng.world.conns[victim].eof {
                let mut t = eng.tail(30);
                t.push(format!("-- c{} ({}) never answered a PING for 62 virtual seconds (ping 50 s, pong 5 s) and is still connected", victim, vnick));
                return Err(Viol::new(
                    "C06.pong_timeout_ends_session",
                    "pong-timeout:not-closed",
                    format!("silent client {} was not disconnected by the keep-alive", vnick),
                )
                .with_transcript(t));
            }
            eng.model.on_close(victim);
            eng.eof_known[victim] = true;
            eng.self_closed[victim] = true;
            for c in 0..eng.world.conns.len() {
                if eng.world.conns[c].eof && !eng.eof_known[c] {
                    let mut t = eng.tail(30);
                    t.push(format!("-- c{} answered every PING but was closed", c));
                    return Err(Viol::new("C06.nothing_else_changes", "pong-timeout:bystander-closed", format!("c{} was closed although it answered PING", c)).with_transcript(t));
                }
            }
        }
        _ => return Ok(false),
    }
    Ok(true)
}

fn survivors_probe(eng: &mut Engine, b: &Built, vnick: &str, kind: &str, st: &mut Stats) -> Result<(), Viol> {
    let pool = b.prof.nicks.clone();
    let regs = registered_conns(&eng.model);
    for v in &regs {
        let mut lines = probe_lines(eng, *v, &pool);
        lines.push(format!("WHOWAS {}", vnick));
        lines.push(format!("WHOIS {}", vnick));
        lines.push(format!("PRIVMSG {} :are you there", vnick));
        for l in lines {
            st.count("probe_lines");
            let o = eng.line(*v, &l);
            if !o.discs.is_empty() {
                return Err(viol_from(eng, &o, kind, &format!("probe `{}` by a survivor", l)));
            }
        }
    }
    // a message to every status of every channel still works (no stale rank-list entries)
    if let Some(v) = regs.first().cloned() {
        let chans: Vec<String> = eng.model.chans.keys().cloned().collect();
        for ch in chans {
            let o = eng.line(v, &format!("NOTICE ~&@%+{} :status probe", ch));
            if !o.discs.is_empty() {
                return Err(viol_from(eng, &o, kind, "NOTICE to all statuses of a channel after the end"));
            }
        }
    }
    // WALLOPS from an operator still works and reaches exactly the +w survivors
    if let Some(opc) = regs.iter().find(|c| eng.model.users[eng.model.nick_of(**c).unwrap()].is_local_oper()) {
        let o = eng.line(*opc, "WALLOPS :after the fault");
        if !o.discs.is_empty() {
            return Err(viol_from(eng, &o, kind, "WALLOPS after the end"));
        }
    }
    // a bystander's earlier invitation still admits it
    let invited: Vec<(usize, String)> = eng
        .model
        .users
        .values()
        .filter(|u| !u.invited.is_empty())
        .map(|u| (u.conn, u.invited.iter().next().unwrap().clone()))
        .collect();
    for (c, ch) in invited {
        st.count("invitation_probes");
        // if the channel died with the session, somebody re-creates it invite-only first: the
        // invitation is the bystander's, not the dead channel's
        if !eng.model.chans.contains_key(&ch) {
            if let Some(x) = registered_conns(&eng.model).into_iter().find(|x| *x != c) {
                for l in [format!("JOIN {}", ch), format!("MODE {} +i", ch)] {
                    let o = eng.line(x, &l);
                    if !o.discs.is_empty() {
                        return Err(viol_from(eng, &o, kind, "re-creating a channel that died with the session"));
                    }
                }
                st.count("invitation_probes_recreated");
            }
        }
        let o = eng.line(c, &format!("JOIN {}", ch));
        if !o.discs.is_empty() {
            return Err(viol_from(eng, &o, kind, "JOIN by an invited bystander after the end"));
        }
    }
    // the nickname is immediately available again
    let (c, outs) = eng.register(vnick, "reuse");
    for o in outs {
        if !o.discs.is_empty() {
            return Err(viol_from(eng, &o, kind, &format!("re-registration under the freed nick {}", vnick)));
        }
    }
    if !eng.model.is_registered(c) {
        return Err(Viol::new("C06.nick_available", format!("{}:nick-not-free", kind), format!("nick {} could not be registered again", vnick)).with_transcript(eng.tail(30)));
    }
    Ok(())
}

pub fn check(case: &ScCase, st: &mut Stats) -> Result<(), Viol> {
    let b = build(&case.cfg);
    let mut s = S::new(&case.cfg);
    s.raw();
    s.raw();
    let mut points = 0u64;
    for cut in 0..=case.ops.len() {
        // two victims per cut point (rotating) x every end kind
        for vi in 0..2 {
            for (ki, kind) in END_KINDS.iter().enumerate() {
                let Some(mut eng) = run_prefix(&b, case, cut, st)? else { return Ok(()) };
                let regs = registered_conns(&eng.model);
                // the victim is never n0 (the operator who kills / sends WALLOPS)
                let cands: Vec<usize> = regs.iter().cloned().filter(|c| eng.model.nick_of(*c) != Some("n0")).collect();
                if cands.is_empty() {
                    continue;
                }
                let victim = cands[(cut + vi * 3 + ki) % cands.len()];
                let vnick = eng.model.nick_of(victim).unwrap().to_string();
                let killer = eng.model.conn_of("n0").filter(|c| eng.model.users["n0"].is_oper() && *c != victim);
                let vu = eng.model.users[&vnick].clone();
                let ranked = vu.chans.iter().any(|ch| eng.model.chans[ch].members[&vnick].any());
                let empties = vu.chans.iter().any(|ch| eng.model.chans[ch].members.len() == 1);
                let feat = format!(
                    "{}{}{}{}{}{}",
                    if !vu.chans.is_empty() { "c" } else { "" },
                    if ranked { "r" } else { "" },
                    if vu.modes.contains(&'w') { "w" } else { "" },
                    if vu.modes.contains(&'i') { "i" } else { "" },
                    if vu.is_local_oper() { "o" } else { "" },
                    if !vu.invited.is_empty() { "v" } else { "" }
                );
                if !end_session(&mut eng, victim, kind, killer)? {
                    st.count("end_kind_not_applicable");
                    continue;
                }
                points += 1;
                st.count(&format!("end.{}", kind));
                survivors_probe(&mut eng, &b, &vnick, kind, st)?;
                if (ranked || vu.modes.contains(&'w') || vu.modes.contains(&'i') || vu.is_local_oper()) && *kind != "quit" {
                    st.nontrivial(format!("{}|{}|{}", kind, feat, empties), || {
                        json!({"end_kind": kind, "victim": vnick, "victim_state": feat, "emptied_a_channel": empties, "cut_after_ops": cut,
                               "history_tail": tail_sent(&eng.log)})
                    });
                }
            }
        }
    }
    // several sessions ending in the same step
    if let Some(mut eng) = run_prefix(&b, case, case.ops.len(), st)? {
        let regs = registered_conns(&eng.model);
        let cands: Vec<usize> = regs.iter().cloned().filter(|c| eng.model.nick_of(*c) != Some("n0")).collect();
        if cands.len() >= 2 {
            let names: Vec<String> = cands.iter().take(3).map(|c| eng.model.nick_of(*c).unwrap().to_string()).collect();
            for c in cands.iter().take(3) {
                eng.model.on_close(*c);
                eng.world.close(*c, CloseKind::Drop);
                eng.self_closed[*c] = true;
            }
            eng.world.settle();
            let o = eng.collect(None, "several sessions closed at once".into(), Default::default());
            if !o.discs.is_empty() {
                return Err(viol_from(&eng, &o, "multi-close", "several sessions closed in the same step"));
            }
            points += 1;
            st.count("end.multi-close");
            survivors_probe(&mut eng, &b, &names[0], "multi-close", st)?;
        }
    }
    st.evaluations += points.saturating_sub(1);
    st.add("fault_points", points);
    crate::sim::set_in_sim(false);
    Ok(())
}

pub fn run(ctx: &RunCtx) -> Vec<PartOutcome> {
    let n = ctx.tier.pick(120, 1_500);
    let max_ops = ctx.tier.pick(8, 14);
    vec![
        explore(ctx, "fault_enumeration", n, || sc_strategy(24, max_ops), check),
        explore_with(ctx, "tcp_ends", ctx.tier.pick(30, 400), 20, crate::checks::wirechecks::strat, crate::checks::wirechecks::c06_tcp_ends),
    ]
}

pub fn replay(part: &str, input: &Value) -> Option<Result<Result<(), Viol>, String>> {
    match part {
        "fault_enumeration" => Some(replay_input::<ScCase>(input, check)),
        "tcp_ends" => Some(replay_input::<crate::checks::wirechecks::WireCase>(input, crate::checks::wirechecks::c06_tcp_ends)),
        _ => None,
    }
}
