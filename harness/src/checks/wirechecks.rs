// Optional real-TCP parts (WIRE mini-engine): connection slots through the real accept loop
// (C19), abortive and half closes (C06), fuzzed sessions with bystander liveness (C05).
// Skipped when loopback cannot be bound; real-time waits that expire are inconclusive.

use proptest::prelude::*;
use serde_derive::{Deserialize, Serialize};
use serde_json::json;

use crate::cfgspec::CfgSpec;
use crate::gen::S;
use crate::runner::*;
use crate::wire::{WireWorld, WAIT};

#[derive(Clone, Debug, Serialize, Deserialize)]
pub struct WireCase {
    pub seeds: Vec<u16>,
}

pub fn strat() -> impl Strategy<Value = WireCase> {
    prop::collection::vec(any::<u16>(), 60).prop_map(|seeds| WireCase { seeds })
}

fn mt_panic(log: &Vec<String>, what: &str) -> Option<Viol> {
    let pans = crate::sim::MT_PANICS.lock().unwrap();
    pans.iter().find(|p| p.loc.contains("/src/state/") && !p.loc.contains("structs.rs")).map(|pn| {
        Viol::new("handler_abort", format!("panic:tcp:{}", what), format!("a handler aborted: {} at {}", pn.msg, pn.loc)).with_transcript(log.clone())
    })
}

fn register(w: &mut WireWorld, nick: &str) -> Option<usize> {
    let c = w.connect()?;
    w.send(c, &format!("NICK {}", nick));
    let r = w.ask(c, &format!("USER u{} 0 * :Wire {}", nick, nick), "reg")?;
    if r.iter().any(|l| l.contains(" 001 ")) {
        Some(c)
    } else {
        None
    }
}

// ------------------------------------------------------------------------------ C19 slots
pub fn c19_slots_tcp(c: &WireCase, st: &mut Stats) -> Result<(), Viol> {
    let mut s = S::new(&c.seeds);
    let seed = s.raw() as u64;
    let m = 1 + s.pick(4);
    let mut cfg = CfgSpec::default();
    cfg.max_connections = Some(m);
    let Some(mut w) = WireWorld::new(cfg.to_main_config(), seed) else {
        st.count("loopback_unavailable");
        return Ok(());
    };
    crate::sim::MT_PANICS.lock().unwrap().clear();
    let mut served: Vec<usize> = vec![];
    let mut log = vec![format!("max_connections = {} on 127.0.0.1:{}", m, w.port)];
    let mut overflow = false;
    let mut reuse = false;
    for _ in 0..(5 + s.pick(12)) {
        if served.len() < m + 1 && (served.is_empty() || s.chance(55)) {
            let Some(c) = w.connect() else {
                st.count("inconclusive_realtime_wait");
                return Ok(());
            };
            w.send(c, "PING probe");
            let got = w.read_until(c, WAIT, &|ls: &[String]| ls.iter().any(|l| l.contains(" 451 ")));
            let expect = served.len() < m;
            log.push(format!("open c{}: {} (model {} of {} used)", c, if got { "served" } else if w.conns[c].eof { "closed" } else { "silent" }, served.len(), m));
            if expect {
                if !got {
                    if !w.conns[c].eof {
                        st.count("inconclusive_realtime_wait");
                        return Ok(());
                    }
                    return Err(Viol::new("C19.connection_slots", if reuse { "slots:tcp:freed-slot-not-reusable" } else { "slots:tcp:below-limit-refused" }, format!("TCP connection #{} was closed although only {} of {} slots are in use", c, served.len(), m)).with_transcript(log));
                }
                served.push(c);
            } else {
                overflow = true;
                if got {
                    return Err(Viol::new("C19.connection_slots", "slots:tcp:over-limit-served", format!("TCP connection #{} was served although all {} slots are in use", c, m)).with_transcript(log));
                }
                if !w.conns[c].eof {
                    st.count("inconclusive_realtime_wait");
                    return Ok(());
                }
            }
        } else {
            let i = s.pick(served.len());
            let c = served.remove(i);
            let kind = ["close", "reset", "quit", "half-close"][s.pick(4)];
            match kind {
                "close" => w.close(c),
                "reset" => w.reset(c),
                "quit" => {
                    w.send(c, "QUIT");
                    w.read_until(c, WAIT, &|_| false);
                }
                _ => {
                    w.half_close(c);
                    w.read_until(c, WAIT, &|_| false);
                }
            }
            log.push(format!("end c{} by {}", c, kind));
            reuse = true;
            // the server notices a closed socket asynchronously: give it a moment
            std::thread::sleep(std::time::Duration::from_millis(30));
        }
    }
    if let Some(v) = mt_panic(&log, "slots") {
        return Err(v);
    }
    if overflow && reuse {
        st.nontrivial(format!("m{}|{}", m, log.len() / 4), || json!({"max_connections": m, "log": log.iter().take(20).collect::<Vec<_>>()}));
    }
    Ok(())
}

// ----------------------------------------------------------- C06: ends only TCP can produce
pub fn c06_tcp_ends(c: &WireCase, st: &mut Stats) -> Result<(), Viol> {
    let mut s = S::new(&c.seeds);
    let seed = s.raw() as u64;
    let Some(mut w) = WireWorld::new(CfgSpec::default().to_main_config(), seed) else {
        st.count("loopback_unavailable");
        return Ok(());
    };
    crate::sim::MT_PANICS.lock().unwrap().clear();
    let mut log = vec![];
    let (Some(a), Some(v)) = (register(&mut w, "surv"), register(&mut w, "vict")) else {
        st.count("inconclusive_realtime_wait");
        return Ok(());
    };
    let alone = s.chance(40);
    let mut ok = true;
    ok &= w.ask(v, "JOIN #own", "j1").is_some();
    ok &= w.ask(v, "JOIN #shared", "j2").is_some();
    ok &= w.ask(a, "JOIN #shared", "j3").is_some();
    if !alone {
        ok &= w.ask(a, "JOIN #own", "j4").is_some();
    }
    ok &= w.ask(v, "MODE vict +w", "m1").is_some();
    if !ok {
        st.count("inconclusive_realtime_wait");
        return Ok(());
    }
    let kind = ["reset", "reset-mid-line", "close", "half-close", "reset-with-unread-output"][s.pick(5)];
    match kind {
        "reset" => w.reset(v),
        "reset-mid-line" => {
            w.send_bytes(v, b"PRIVMSG surv :unfinish");
            w.reset(v);
        }
        "close" => w.close(v),
        "half-close" => w.half_close(v),
        _ => {
            for i in 0..200 {
                w.send(a, &format!("PRIVMSG vict :filler {} {}", i, "x".repeat(300)));
            }
            if w.ask(a, "PING x", "fill").is_none() {
                st.count("inconclusive_realtime_wait");
                return Ok(());
            }
            w.reset(v);
        }
    }
    log.push(format!("victim ended by {}", kind));
    // the server notices asynchronously: poll until the nick is gone (bounded)
    let mut gone = false;
    for i in 0..60 {
        let Some(r) = w.ask(a, "ISON vict", &format!("p{}", i)) else {
            st.count("inconclusive_realtime_wait");
            return Ok(());
        };
        if r.iter().any(|l| l.contains(" 303 ") && !l.contains("vict")) {
            gone = true;
            break;
        }
        std::thread::sleep(std::time::Duration::from_millis(25));
    }
    st.nontrivial(format!("{}|{}", kind, alone), || json!({"end_kind": kind, "victim_alone_in_own_channel": alone}));
    let fail = |sig: &str, msg: String, log: &Vec<String>| Viol::new("C06.tcp_end_leaves_no_trace", format!("tcp:{}:{}", kind, sig), format!("victim ended by {}: {}", kind, msg)).with_transcript(log.clone());
    if !gone {
        return Err(fail("still-present", "ISON still lists the victim 1.5 s after its connection ended".into(), &log));
    }
    let mut probes = vec![];
    for (q, tok) in [("NAMES #shared", "q1"), ("NAMES #own", "q2"), ("WHOWAS vict", "q3"), ("MODE #own", "q4"), ("WHOIS vict", "q5")] {
        let Some(r) = w.ask(a, q, tok) else {
            st.count("inconclusive_realtime_wait");
            return Ok(());
        };
        for l in &r {
            log.push(format!("{} -> {}", q, l));
        }
        probes.push(r);
    }
    if probes[0].iter().any(|l| l.contains(" 353 ") && l.contains("vict")) || probes[1].iter().any(|l| l.contains(" 353 ") && l.contains("vict")) {
        return Err(fail("in-roster", "the victim is still listed by NAMES".into(), &log));
    }
    if !probes[2].iter().any(|l| l.contains(" 314 ")) {
        return Err(fail("no-whowas", "no WHOWAS record of the victim".into(), &log));
    }
    if alone && !probes[3].iter().any(|l| l.contains(" 403 ")) {
        return Err(fail("channel-survives", "the channel the victim left empty still exists".into(), &log));
    }
    if !alone && !probes[3].iter().any(|l| l.contains(" 324 ")) {
        return Err(fail("channel-lost", "a channel with a remaining member disappeared".into(), &log));
    }
    if probes[4].iter().any(|l| l.contains(" 311 ")) {
        return Err(fail("whois", "WHOIS still answers for the victim".into(), &log));
    }
    // nick immediately available again
    if register(&mut w, "vict").is_none() {
        return Err(fail("nick-not-free", "the nickname could not be registered again".into(), &log));
    }
    if let Some(v) = mt_panic(&log, kind) {
        return Err(v);
    }
    Ok(())
}

// ------------------------------------------------------------------- C05: fuzz over TCP
pub fn c05_tcp_smoke(c: &WireCase, st: &mut Stats) -> Result<(), Viol> {
    let mut s = S::new(&c.seeds);
    let seed = s.raw() as u64;
    let Some(mut w) = WireWorld::new(CfgSpec::default().to_main_config(), seed) else {
        st.count("loopback_unavailable");
        return Ok(());
    };
    crate::sim::MT_PANICS.lock().unwrap().clear();
    let mut log = vec![];
    let (Some(b0), Some(b1), Some(f)) = (register(&mut w, "n0"), register(&mut w, "n1"), register(&mut w, "f")) else {
        st.count("inconclusive_realtime_wait");
        return Ok(());
    };
    let _ = w.ask(b0, "JOIN #c0", "j0");
    let _ = w.ask(b1, "JOIN #c0", "j1");
    let _ = w.ask(f, "JOIN #c0", "j2");
    let n = 3 + s.pick(20);
    for i in 0..n {
        let (line, desc) = crate::checks::c05::fuzz_line(&mut s, "f");
        if line.len() > 1900 || desc.starts_with("QUIT") || desc.starts_with("DIE") || desc.starts_with("SQUIT") {
            continue;
        }
        log.push(format!("f > {}", if line.len() > 160 { format!("{}...", crate::checks::c05::clip(&line, 160)) } else { line.clone() }));
        if w.ask(f, &line, &format!("z{}", i)).is_none() {
            st.count("inconclusive_realtime_wait");
            return Ok(());
        }
        st.nontrivial(desc.clone(), || json!({"line": desc}));
        if w.conns[f].eof {
            return Err(Viol::new("C05.unjustified_close", format!("tcp:close:sender:{}", desc.split('/').next().unwrap_or("")), format!("after {} the sender's TCP connection was closed", desc)).with_transcript(log));
        }
        if let Some(v) = mt_panic(&log, &desc) {
            return Err(Viol::new("C05.handler_abort", v.signature, v.explanation).with_transcript(log));
        }
    }
    // bystanders are alive and still talk to each other
    for (c, other) in [(b0, "n1"), (b1, "n0")] {
        let Some(_) = w.ask(c, &format!("PRIVMSG {} :still here", other), "alive") else {
            if w.conns[c].eof {
                return Err(Viol::new("C05.bystander_closed", "tcp:bystander-eof", "a bystander's TCP connection was closed".to_string()).with_transcript(log));
            }
            st.count("inconclusive_realtime_wait");
            return Ok(());
        };
        if w.conns[c].eof {
            return Err(Viol::new("C05.bystander_closed", "tcp:bystander-eof", "a bystander's TCP connection was closed".to_string()).with_transcript(log));
        }
    }
    Ok(())
}
