pub mod c04;
pub mod c05;
pub mod c06;
pub mod c12;
pub mod c13;
pub mod c14;
pub mod c17;
pub mod c18;
pub mod c20;
pub mod mb;
pub mod mbchecks;
pub mod wire13;
pub mod wirechecks;

use crate::runner::{PartOutcome, RunCtx, Viol};
use serde_json::Value;

pub struct CheckDef {
    pub id: &'static str,
    pub run: fn(&RunCtx) -> Vec<PartOutcome>,
    pub replay: fn(&str, &Value) -> Option<Result<Result<(), Viol>, String>>,
    pub rule: &'static str,
    pub level: &'static str,
    pub assumptions: &'static [&'static str],
}

const SIM_ASSUMPTIONS: &[&str] = &[
    "SIM engine: the repository's user_state_process served over in-memory duplex streams (hook H1) on a single-threaded Tokio runtime with paused clock; accept loop / TCP / TLS are bypassed",
    "reference model (model.rs) written from the property statements; don't-care regions listed in DESIGN.md section 11 are followed, not judged",
    "all server output is tokenised by the reference tokenizer (refparse.rs)",
];


fn run_c01(ctx: &RunCtx) -> Vec<PartOutcome> {
    mbchecks::run_spec(ctx, &mbchecks::C01, 12000, 600000)
}
fn replay_c01(part: &str, input: &Value) -> Option<Result<Result<(), Viol>, String>> {
    mbchecks::replay_spec(&mbchecks::C01, part, input)
}

fn run_c07(ctx: &RunCtx) -> Vec<PartOutcome> {
    mbchecks::run_spec(ctx, &mbchecks::C07, 8000, 150000)
}
fn replay_c07(part: &str, input: &Value) -> Option<Result<Result<(), Viol>, String>> {
    mbchecks::replay_spec(&mbchecks::C07, part, input)
}

fn run_c08(ctx: &RunCtx) -> Vec<PartOutcome> {
    mbchecks::run_spec(ctx, &mbchecks::C08, 8000, 150000)
}
fn replay_c08(part: &str, input: &Value) -> Option<Result<Result<(), Viol>, String>> {
    mbchecks::replay_spec(&mbchecks::C08, part, input)
}

fn run_c09(ctx: &RunCtx) -> Vec<PartOutcome> {
    mbchecks::run_c09(ctx)
}
fn replay_c09(part: &str, input: &Value) -> Option<Result<Result<(), Viol>, String>> {
    mbchecks::replay_c09(part, input)
}

fn run_c10(ctx: &RunCtx) -> Vec<PartOutcome> {
    mbchecks::run_spec(ctx, &mbchecks::C10, 20000, 800000)
}
fn replay_c10(part: &str, input: &Value) -> Option<Result<Result<(), Viol>, String>> {
    mbchecks::replay_spec(&mbchecks::C10, part, input)
}

fn run_c11(ctx: &RunCtx) -> Vec<PartOutcome> {
    mbchecks::run_c11(ctx)
}
fn replay_c11(part: &str, input: &Value) -> Option<Result<Result<(), Viol>, String>> {
    mbchecks::replay_c11(part, input)
}

fn run_c15(ctx: &RunCtx) -> Vec<PartOutcome> {
    mbchecks::run_spec(ctx, &mbchecks::C15, 3000, 60000)
}
fn replay_c15(part: &str, input: &Value) -> Option<Result<Result<(), Viol>, String>> {
    mbchecks::replay_spec(&mbchecks::C15, part, input)
}

fn run_c16(ctx: &RunCtx) -> Vec<PartOutcome> {
    mbchecks::run_spec(ctx, &mbchecks::C16, 6000, 100000)
}
fn replay_c16(part: &str, input: &Value) -> Option<Result<Result<(), Viol>, String>> {
    mbchecks::replay_spec(&mbchecks::C16, part, input)
}

fn run_c19(ctx: &RunCtx) -> Vec<PartOutcome> {
    mbchecks::run_spec(ctx, &mbchecks::C19, 6000, 100000)
}
fn replay_c19(part: &str, input: &Value) -> Option<Result<Result<(), Viol>, String>> {
    mbchecks::replay_spec(&mbchecks::C19, part, input)
}

fn run_c02(ctx: &RunCtx) -> Vec<PartOutcome> {
    mbchecks::run_spec(ctx, &mbchecks::C02, 8000, 120000)
}
fn replay_c02(part: &str, input: &Value) -> Option<Result<Result<(), Viol>, String>> {
    mbchecks::replay_spec(&mbchecks::C02, part, input)
}

fn run_c13(ctx: &RunCtx) -> Vec<PartOutcome> {
    let mut p = c13::run_pure(ctx);
    p.extend(wire13::run_c13_sim(ctx));
    p
}
fn replay_c13(part: &str, input: &Value) -> Option<Result<Result<(), Viol>, String>> {
    c13::replay(part, input).or_else(|| wire13::replay_c13_sim(part, input))
}
fn run_c14(ctx: &RunCtx) -> Vec<PartOutcome> {
    let mut p = c14::run(ctx);
    p.extend(wire13::run_c14_wire(ctx));
    p
}
fn replay_c14(part: &str, input: &Value) -> Option<Result<Result<(), Viol>, String>> {
    c14::replay(part, input).or_else(|| wire13::replay_c14_wire(part, input))
}

pub fn all() -> Vec<CheckDef> {
    vec![
        CheckDef {
            id: "C02",
            run: run_c02,
            replay: replay_c02,
            rule: "3-6 connections contending for 2-3 nicknames: per-connection PASS/NICK/USER/CAP lines, gated verbs, QUIT and closes at every stage of registration, interleaved with NICK changes, JOIN/PRIVMSG/MODE/KICK/QUIT of registered users; optional server password / configured user with mask; oracle = ownership ledger of the model (one owner per nick, 433 on contention), every relayed line attributed to the acting connection's own user, probes (ISON/WHOIS/NAMES/WHO/LUSERS) unchanged by refused/unfinished connections however they end, owners stay alive; non-trivial = a nick claimed on an unregistered connection and registered by another (433 at completion) or >=2 registrations with an in-use refusal; distinct by capped outcome counts",
            level: "exploration",
            assumptions: SIM_ASSUMPTIONS,
        },
        CheckDef {
            id: "C03",
            run: mbchecks::run_c03,
            replay: mbchecks::replay_c03,
            rule: "8 configuration classes (no password, server password, configured user with/without password and with matching/non-matching mask) x random sequences (<= 24 lines) of PASS right/wrong/other, NICK, USER, CAP LS/REQ/LIST/END, AUTHENTICATE, QUIT and 39 well-formed gated verbs on fresh connections, plus ALL sequences of length <= 4/5 over an 8-symbol alphabet per class; oracle = reference registration machine: gated verb before completion => exactly 451 and observer probes unchanged; completion conditions; 464 + close + no user on wrong/missing password; non-trivial = sequence reaching a password/mask decision or placing >= 2 gated verbs; distinct by (gated count, outcomes) / (class, sequence)",
            level: "exploration",
            assumptions: SIM_ASSUMPTIONS,
        },
        CheckDef {
            id: "C04",
            run: c04::run,
            replay: c04::replay,
            rule: "generated histories of JOIN (single/lists/keys), PART, KICK, NICK, QUIT, abrupt close, new users, mode changes over 3-6 users and 4 channels; after every step NAMES/WHO/WHOIS probes from the actor and a rotating viewer, all viewers at the end; crowded: rosters beyond the reply chunk sizes, and one command announced 20-44 times to the same member (comma-list JOIN/PART over shared channels, KICK naming many members) - every announcement arrives; non-trivial = >= 3 membership changes incl. a PART/KICK/NICK/QUIT; distinct by capped counts of each change kind",
            level: "exploration",
            assumptions: SIM_ASSUMPTIONS,
        },
        CheckDef {
            id: "C01",
            run: run_c01,
            replay: replay_c01,
            rule: "generated histories (joins, parts, kicks, nick changes, rank/mode changes, disconnects) over 4-6 users with ranked members, then PRIVMSG/NOTICE with 1-5 targets mixing channels, status-prefixed channels (every subset of ~&@%+ on # and & channels), nicks, duplicates and non-existent names; oracle = exact multiset of copies per connection with sender prefix, target and text as sent; non-trivial = a send whose accepted target has a non-empty audience in a case that also had membership/rank churn; distinct by (status letters/audience bucket of the sends, churn kinds)",
            level: "exploration",
            assumptions: SIM_ASSUMPTIONS,
        },
        CheckDef {
            id: "C05",
            run: c05::run,
            replay: c05::replay,
            rule: "role-based session fuzzer: a scripted scene (5 bystanders ranked founder/op/half-op/voice/plain in #c0, an IRC operator, a predefined channel, bans, away/invisible users), the fuzzed connection in one of 10 roles (unregistered, alone, plain, voice, half-op, op, protected, founder, IRC operator, after peers left) sends 1-30 lines from a table of 42 verbs x arity 0..max+2 x 40 parameter shapes (existing/non-existing/own/duplicated names, empty, 1900-byte, multi-byte, wildcard-heavy masks, numeric extremes, sign-switching mode strings, status-prefix soups) or raw bytes (invalid UTF-8, NUL, bare CR, over-long lines, 1-5 byte chunking); oracle = no connection task panics, closes only after ERROR/464 or fatal input on the sender, every bystander answers PING and receives a PRIVMSG from another bystander every 6 lines and at the end; non-trivial = line sent in a registered role; distinct by (verb, arity, parameter-length shape, role)",
            level: "exploration",
            assumptions: &["SIM engine (hook H1, in-memory transport); panics are attributed to a connection task by a poll wrapper + panic hook", "panics in detached timer tasks (ping_client_waker SendError after a client left) cannot affect a session and are recorded, not judged"],
        },
        CheckDef {
            id: "C06",
            run: c06::run,
            replay: c06::replay,
            rule: "fault enumeration: for each generated history (memberships with ranks, user modes, operator, away, pending invitations) x EVERY cut point x 2 victims x EVERY end kind (QUIT, close at line boundary, close mid-line, close with unread output pending, half-close, invalid UTF-8, over-long line, KILL by an operator, two pipelined KILLs of the same nick, pong timeout in virtual time, a last command / a QUIT arriving together with the close so that the answer cannot be written) plus several sessions closing in one step: the prefix is replayed in a fresh world, the session ended, and the survivors run the full probe battery (NAMES/WHO/WHOIS/MODE/TOPIC/LIST/LUSERS/ISON/USERHOST/WHOWAS), WALLOPS, an invited bystander's JOIN and a re-registration under the freed nick, all against the model; an evaluation = one (history, cut, victim, end kind); non-trivial = victim had a ranked membership or +w/+i/operator and the end kind is not QUIT; distinct by (end kind, victim feature vector, emptied-a-channel)",
            level: "fault_enumeration",
            assumptions: &["SIM engine: TCP RST cannot be produced on the in-memory transport (close = drop of the client half, half-close = shutdown of its write side)", "reference model on_close() = the clean-up rule of the statement", "keep-alive in virtual time with ping_timeout=50 s, pong_timeout=5 s"],
        },
        CheckDef {
            id: "C07",
            run: run_c07,
            replay: replay_c07,
            rule: "channel constraint vectors (+k, +l around occupancy, +i, ban/except/invex masks derived from candidate sources, invitations, max_joins 1..3) set up by a founder, then JOINs (single and comma lists with per-channel keys) by non-members; oracle = admission predicate of the statement with the reference glob; refused => >=1 numeric and only numerics of failing conditions, nothing announced, probes unchanged; accepted => echo+353/366, announced to every member, invitation consumed; probes: admission by two outsiders after every MODE, an invitation is used up by the JOIN it admits and survives a JOIN refused for another reason (key, limit) first; non-trivial = JOIN to an existing channel with >=2 constraint kinds active; distinct by (constraint vector, outcome, failing numerics)",
            level: "exploration",
            assumptions: SIM_ASSUMPTIONS,
        },
        CheckDef {
            id: "C08",
            run: run_c08,
            replay: replay_c08,
            rule: "actors of every rank combination (set up by the founder, incl. founders that dropped o or q) issue MODE strings of 1-4 letters over q a o h v b e I k l i m t n s with both signs, member/non-member/unknown targets and list queries; oracle = privilege matrix of the statement at command start; announcement multiset = applied changes to all members; 482/442/441 for refused; 324/353/WHO probes after every command; non-trivial = command mixing refused and applied letters or a q/a/o/h change; distinct by (actor rank, applied letters, refusals)",
            level: "exploration",
            assumptions: SIM_ASSUMPTIONS,
        },
        CheckDef {
            id: "C09",
            run: run_c09,
            replay: replay_c09,
            rule: "actor/victim rank pairs (multi-flag ranks), KICK lists with absent/own names and comments, TOPIC set/clear/read on +-t, INVITE of present/absent/unknown users on +-i followed by JOINs; oracle = rank rules of the statement, audience of announcements, one-shot admission; non-trivial = KICK of/by ranked members, TOPIC/INVITE refused for rank, or an invitation that admits; distinct by those tags; part long_texts = topics and kick comments of 0..1900 bytes (dense around the advertised 1000, multi-byte at every phase): every copy of an announcement is the same prefix of what was sent, and later TOPIC / LIST / JOIN replies show exactly the announced topic; non-trivial there = a text of at least 990 bytes",
            level: "exploration",
            assumptions: SIM_ASSUMPTIONS,
        },
        CheckDef {
            id: "C10",
            run: run_c10,
            replay: replay_c10,
            rule: "sender membership x rank x +n/+s/+m x ban/except masks relative to the sender x PRIVMSG/NOTICE x existing/non-existing targets x away recipients after mode/nick/membership churn; oracle = deliver predicate of the statement; refused => nobody receives and a PRIVMSG sender gets 404; NOTICE never yields a server-prefixed line; 301 with the away text; non-trivial = send with >=2 of {outsider, n/s, m, ban, except} in play or NOTICE to a refusing/non-existent/away target; distinct by (condition vector, outcome)",
            level: "exploration",
            assumptions: SIM_ASSUMPTIONS,
        },
        CheckDef {
            id: "C11",
            run: run_c11,
            replay: replay_c11,
            rule: "configs with 1-2 operators (mask none/matching/non-matching, constraining nick / user / host, one entry sometimes written twice), default modes incl. o/O; sequences of OPER (right/wrong name/password), MODE own/foreign nick +-{i,o,O,w}, NICK onto operator names, KILL/DIE/SQUIT/WALLOPS/STATS from every privilege level; oracle = privilege ledger (only OPER/default modes confer; -o/-O/disconnect remove), 313/221/WALLOPS/KILL behaviour; non-trivial = a refused OPER or MODE +o/+O attempt together with a privileged verb; distinct by (routes attempted, verbs)",
            level: "exploration",
            assumptions: SIM_ASSUMPTIONS,
        },
        CheckDef {
            id: "C15",
            run: run_c15,
            replay: replay_c15,
            rule: "user state vectors (memberships with ranks in 1-3 channels, +i/+w, operator via OPER, away, pending invitation to a +i channel) x new nick kinds (free, taken, previously used, invalid), repeated; oracle = after an accepted NICK all probes (NAMES prefixes, WHO, WHOIS 313/319, MODE, 301, WALLOPS, JOIN by invitation, WHOWAS, ISON) from every viewer show the state under the new nick, and WHOWAS shows the nickname given up also once somebody holds it again; refused => nothing changes; non-trivial = accepted rename of a user with >=2 kinds of attached state; distinct by (state vector, fresh/reused nick)",
            level: "exploration",
            assumptions: SIM_ASSUMPTIONS,
        },
        CheckDef {
            id: "C16",
            run: run_c16,
            replay: replay_c16,
            rule: "create/use/empty/recreate cycles with PART, KICK, QUIT, drop, KILL in any order over 3-4 users, max_joins quota, 0-3 predefined channels with random topic/flags/key/limit/mask lists/rank lists; oracle = lifecycle rules of the statement via 353 prefixes, 324, LIST, LUSERS 254, 403, 331/332; non-trivial = >=2 channel creations and >=1 departure; distinct by (creations, departures, departure kinds, predefined involved)",
            level: "exploration",
            assumptions: SIM_ASSUMPTIONS,
        },
        CheckDef {
            id: "C17",
            run: c17::run,
            replay: c17::replay,
            rule: "worlds with ping_timeout p in {1..200 s} and pong_timeout q with q<p, q=p, q>p; 1-4 clients each with a response pattern (always, always with another token, never, stops after k=1..5 answers) plus unrelated traffic (own PINGs with tokens, PRIVMSGs); 4-11 ping cycles in virtual time; oracle = PONG echoes the token; server PINGs at registration + i*p, none missing while the client is connected (answered or not); unsolicited PONGs answer nothing; PING with a second parameter, with an empty token, with a token ending in a blank, with a 1975-byte token or with the client's own `:nick` source in front echoes the token; responders never closed; a client the keep-alive dropped is gone for a fresh connection (ISON); a client silent from its k-th PING on gets ERROR and EOF by t_k + q + one simulation step; non-trivial = client with >= 2 PING cycles that is not a plain responder under q<p; distinct by (relation, pattern class, k)",
            level: "exploration",
            assumptions: &["Tokio paused clock (virtual time) on a single-threaded runtime; the simulation step (min(p,q)/4, 100..1000 ms) is the timing tolerance", "no real-time tier"],
        },
        CheckDef {
            id: "C18",
            run: c18::run,
            replay: c18::replay,
            rule: "(b) bursts: 16 conflict kinds (two registrations / two renames for one nick, simultaneous first joins, JOINs racing for the last +l slot, MODE vs JOIN, KICK vs PRIVMSG, PRIVMSG vs NICK, KILL vs activity, last PART vs JOIN, INVITE vs JOIN, TOPIC vs KICK/de-rank, one message to four channels vs JOIN/PART of the same list, readers (WHO/WHOIS) vs writers, KICK vs the victim leaving, KILL vs a take-over of the nick, and random pairs of handlers from a 34-shape vocabulary) of 2-8 commands over 2-4 connections, a third of them behind a slow writer (OPER), written without waiting in a generated order and executed under a generated yield schedule at the H2 points (process_nick, authenticate, privmsg), with optional server password (Argon2 await); oracle = outcome (per-connection reply sequences, per (sender,receiver) relay sequences, final probe digest from every viewpoint, closes) equals that of SOME sequential order of the same commands (all interleavings respecting per-connection order, <= 720) on a fresh server, plus one winner per nick, one founder, members <= limit, every live connection answers PING; (a) pipelines: 2-6 connections each send 5-30 commands each followed by PING k in one or many writes; oracle = PONG k in order, every reply inside its command's segment, relays of one sender arrive in order, every direct message arrives exactly once (a sixth of the cases: one connection floods another with 30-90 messages in a row); (c) bursts_parallel: the same bursts on a multi-thread runtime (2-8 workers, real time), outcome compared with sequential replays on the deterministic engine, stall = runtime idle with an unanswered PING; (d) slow_reader: a client on 20-200 channels pipelines 5-44 long-reply commands without reading (socket buffer 8-64 KB) - the others must still be answered, afterwards it gets every reply complete and in order; (e) counters_parallel / teardown_under_load / lusers_snapshot (multi-thread runtime): STATS m grows by exactly the number of commands sent at the same time; a session that ends while 40-80 connections keep the state lock busy is gone afterwards; every LUSERS reply read while 6-25 other connections register, change +i and leave describes one moment (251 users + invisible = 255 clients = 265 = 266 current, maxima not below); non-trivial = burst with >= 2 commands where a yield was taken (or no schedule) / any pipeline; distinct by (kind, yields taken, write order)",
            level: "exploration",
            assumptions: &["SIM single-threaded runtime: interleavings arise from write order, select! seed and the yields injected at the three H2 schedule points; true parallelism is explored only by sampling (part bursts_parallel: real time, schedules not replayable; an expired wait is inconclusive unless the runtime is idle)", "linearizability is judged against sequential executions of the same server code (differential), so a defect that is also present sequentially is left to the other properties"],
        },
        CheckDef {
            id: "C19",
            run: mbchecks::run_c19,
            replay: mbchecks::replay_c19,
            rule: "histories of registrations, MODE +-i/+-o/+-O, repeated/failed OPER, default modes, renames, channel creation/destruction and endings (QUIT, drop, KILL) with LUSERS/ISON/USERHOST after every step; oracle = model counts and high-water mark, exact presence sets and flags; non-trivial = repeated OPER, a +-o/+-O toggle or an exit before a LUSERS; distinct by capped counts; connection_slots: max_connections m in 1..5, random patterns of opening connections and ending served ones (drop, QUIT, register + half-close, 464 refusal, invalid UTF-8, over-long line, drop mid-line, drop after 433): with j open exactly min(j,m) are served (answer PING), the rest get EOF without a reply, and every ended connection frees its slot; non-trivial = pattern with an over-limit connection and a re-used slot",
            level: "exploration",
            assumptions: SIM_ASSUMPTIONS,
        },
        CheckDef {
            id: "C12",
            run: c12::run,
            replay: c12::replay,
            rule: "pairs of worlds that differ only in the hidden part (a +s channel with members/topic/key/ranks, or a +i user with memberships/away) x observer kinds (plain outsider, member of other channels, IRC operator) x 4-9 queries drawn from LIST/NAMES/WHO/WHOIS with no argument, the hidden name, comma lists mixing hidden/public/non-existent names and wildcard masks; oracle = equal normalised observer transcripts, plus PRIVMSG/NOTICE into the secret channel reaches nobody; non-trivial = hidden part non-empty; distinct by (hidden kind, query verb/form, observer kind)",
            level: "exploration",
            assumptions: &["two-world differential: both worlds run the same server code; only answers to the observer's LIST/NAMES/WHO/WHOIS (+TOPIC/MODE of the hidden channel) are compared", "LIST member counts are excluded for the invisible-user case, LUSERS/ISON are not asked"],
        },
        CheckDef {
            id: "C13",
            run: run_c13,
            replay: replay_c13,
            rule: "lines from a grammar generator (verb in random case, middles that may contain ':', optional trailing incl. empty, blank runs), a byte-level generator and all strings of length <= 8/10 over {SP ':' 'a' ',' '#'}; non-trivial = reference parse has >= 2 parameters and one of: ':' inside a middle, blank runs, empty trailing, mixed-case verb; distinct by (verb, #params, those four flags); SIM parts: verb_table = EVERY verb x arity 0..max+2 x {plain, mixed case, extra blanks} must be answered 421 (unknown) / 461 naming the verb (too few parameters) / neither; framing = lines of 1..4200 bytes (dense around the 2000 limit) LF/CRLF: processed once and uncut, or exactly one 417 and nothing executed; chunking = the same script line-at-a-time vs arbitrary chunking gives equal transcripts; eof_fragment = 0-2 complete lines then an unterminated fragment (command, partial CRLF, cut multi-byte character) then close / half-close: the complete lines are executed, the fragment never is; valid_params = unusual but acceptable parameters (status prefixes before dotted channel names, empty places in key lists, empty trailing texts, optional extra parameters) are never refused as invalid; a verb that is not one of the 41 commands (incl. verbs whose Unicode upper case is a command name) never maps to a command; relay = model-based histories with adversarial texts: every relayed PRIVMSG/NOTICE/TOPIC/PART/KICK/NICK/INVITE/WALLOPS and 301/332, re-parsed by the reference tokenizer, carries exactly the originator's target and text, every emitted line is one CRLF-terminated parsable message",
            level: "exploration",
            assumptions: &["reference tokenizer (refparse.rs, self-tested) is the IRC grammar of the statement", "TAB/VT/FF/CR/LF inside a line and leading non-ASCII blanks are not judged", "line lengths 1991..2009 may be handled either way (processed whole or rejected whole)", "SIM engine for the wire parts"],
        },
        CheckDef {
            id: "C14",
            run: run_c14,
            replay: replay_c14,
            rule: "mask/text pairs: masks derived from the text by wildcarding/lengthening edits, independent random pairs, and all pairs of strings of length <= 4/5 over {a b * ? e-acute}; non-trivial = mask has a wildcard and a literal and a one-edit neighbour of the text answers differently, or a multi-byte pair with a wildcard; distinct by (wildcard skeleton, text length bucket, answer, ascii/multibyte); wire_agreement (SIM, model-based): ban/except/invite-exception masks, operator mask and configured-user mask derived from real sources (16 mask shapes incl. partial forms) decide JOIN 474/473, OPER 491/381, registration ERROR/001, WHO/WHOIS mask result sets exactly as the reference glob says, and list masks are announced/listed in normalised form; newcomers whose user name contains '@', '!' or '*' (the text a mask is matched against is the whole nick!user@host) meet host-wide bans",
            level: "exploration",
            assumptions: &["reference glob (refglob.rs, textbook DP over Unicode scalar values, self-tested)", "SIM engine + reference model for the wire part"],
        },
        CheckDef {
            id: "C20",
            run: c20::run,
            replay: c20::replay,
            rule: "validation: TOML files generated structurally over the documented fields (each valid / absent / invalid value or type: name without dot, bad hashes, invalid user/operator/channel names, over-long nick, missing mode flags, lone TLS file) x CLI vectors (-n -N -p -l -C -K) against a reference validator - MainConfig::new(Cli::try_parse_from) is Ok iff valid, effective values follow the CLI; hash_roundtrip: password pairs at edit distance <= 1 (ASCII, multi-byte, empty, long) - verify(p', hash(p)) iff p' = p and hash passes validate_password_hash; documented_keys: every leaf key of config-example.toml mutated in turn must change the parsed MainConfig (exhaustive); settings_govern: valid generated configs loaded through MainConfig::new and served in SIM - password right/wrong/none => 001 vs 464+close, welcome burst shows name/network/MOTD/CHANLIMIT, 221 = default_user_modes, 405 at max_joins (single JOINs and a list crossing the quota), max_connections (full, refused, freed slot re-used); toml_sessions: generated configurations rich in [[channels]] (overlapping rank lists, key, limit 0-3, masks, topic), [[operators]] with masks, [[users]] with password/mask, quota and default user modes are written as TOML text, must load to exactly the structure they spell out (differential against direct construction) and a model-based session (JOIN, OPER, contended registrations, LIST, TOPIC, PRIVMSG, probes) runs on the server built from the text; binary: the real binary exits non-zero on invalid configs, keeps serving on valid ones, `-g -P p` prints hash(p); non-trivial = config with >= 1 invalid field or CLI override / near-duplicate password pair / each key; distinct by the set of invalid fields and overrides",
            level: "exploration",
            assumptions: &["reference validator (c20.rs gen_config) encodes the validation rules named in the statement and config-example.toml", "TLS on/off transcript equality is NOT covered (would need a second feature build and loopback TCP); log output is not checked", "binary part is skipped when /verif/.build/repo-bin is missing; a bind failure of a valid config is not judged"],
        },
    ]
}
