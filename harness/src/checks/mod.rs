pub mod c13;
pub mod c14;
