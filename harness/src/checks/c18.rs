// C18 - per-connection order is kept and concurrent commands take effect atomically.
// (a) pipelines: every connection sends many commands without waiting, each followed by
//     PING <seq>; replies must stay inside their command's segment, relays keep sender order.
// (b) bursts of conflicting commands executed concurrently under a generated schedule (write
//     order, select! seed, yields at the H2 schedule points) must be linearizable: the outcome
//     equals that of running the same commands one at a time, in some order respecting each
//     connection's own order, on a fresh server (same code, sequential replay).

use proptest::prelude::*;
use serde_derive::{Deserialize, Serialize};
use serde_json::{json, Value};
use std::cell::RefCell;
use std::collections::{BTreeMap, BTreeSet};

use crate::cfgspec::{CfgSpec, OperSpec, SERVER_NAME};
use crate::gen::S;
use crate::norm::{self, NL};
use crate::refparse;
use crate::runner::*;
use crate::sim::World;

thread_local! {
    static YIELDS: RefCell<(Vec<u8>, usize, usize)> = RefCell::new((vec![], 0, 0));
}

fn yield_hook(_site: &'static str) -> u32 {
    YIELDS.with(|y| {
        let mut y = y.borrow_mut();
        if y.0.is_empty() {
            return 0;
        }
        let i = y.1;
        y.1 += 1;
        let v = (y.0[i % y.0.len()] % 4) as u32;
        if v > 0 {
            y.2 += 1;
        }
        v
    })
}

fn install_schedule(v: Vec<u8>) {
    let _ = crate::VERIF_POINT_HOOK.set(yield_hook);
    YIELDS.with(|y| *y.borrow_mut() = (v, 0, 0));
}

fn clear_schedule() -> usize {
    YIELDS.with(|y| {
        let mut y = y.borrow_mut();
        let n = y.2;
        *y = (vec![], 0, 0);
        n
    })
}

#[derive(Clone, Debug, Serialize, Deserialize)]
pub struct BurstCase {
    pub seeds: Vec<u16>,
}

struct Plan {
    cfg: CfgSpec,
    nconns: usize,
    prefix: Vec<(usize, String)>,
    burst: Vec<(usize, String)>, // global write order; per-connection order = order of appearance
    kind: &'static str,
    yields: Vec<u8>,
    contested_nick: Option<String>,
    new_channel: Option<String>,
    limit: Option<(String, usize)>,
}

fn plan(seeds: &[u16]) -> Plan {
    let mut s = S::new(seeds);
    s.raw();
    let mut cfg = CfgSpec::default();
    cfg.opers.push(OperSpec { name: "op0".into(), password: "operpw0".into(), mask: None });
    let with_password = s.pick(8) == 0;
    if with_password {
        cfg.password = Some("srvpass".into());
    }
    let nreg = 4;
    let nconns = 6;
    let mut prefix: Vec<(usize, String)> = vec![];
    for i in 0..nreg {
        if with_password {
            prefix.push((i, "PASS srvpass".into()));
        }
        prefix.push((i, format!("NICK n{}", i)));
        prefix.push((i, format!("USER u{} 0 * :Real n{}", i, i)));
    }
    let kind_i = s.pick(28);
    let mut per_conn: Vec<(usize, Vec<String>)> = vec![];
    let mut contested_nick = None;
    let mut new_channel = None;
    let mut limit = None;
    let kind: &'static str = match kind_i {
        0 => {
            // two fresh connections register the same nick
            let pass = |v: &mut Vec<String>| {
                if with_password {
                    v.push("PASS srvpass".into())
                }
            };
            let mut a = vec![];
            pass(&mut a);
            a.push("NICK x".into());
            a.push("USER a 0 * :A".into());
            let mut b = vec![];
            pass(&mut b);
            if s.chance(50) {
                b.push("USER b 0 * :B".into());
                b.push("NICK x".into());
            } else {
                b.push("NICK x".into());
                b.push("USER b 0 * :B".into());
            }
            // the one that is refused typically tries another nick at once (the winner simply
            // renames)
            if s.chance(50) {
                a.push("NICK xa".into());
            }
            if s.chance(50) {
                b.push("NICK xb".into());
            }
            per_conn.push((4, a));
            per_conn.push((5, b));
            if s.chance(40) {
                per_conn.push((1, vec!["NICK x".into()]));
            }
            contested_nick = Some("x".to_string());
            "register-race"
        }
        1 => {
            per_conn.push((1, vec!["NICK y".into()]));
            per_conn.push((2, vec!["NICK y".into()]));
            per_conn.push((3, vec![["PRIVMSG y :to whoever wins", "WHOIS y", "ISON y n1 n2"][s.pick(3)].to_string()]));
            contested_nick = Some("y".to_string());
            "rename-race"
        }
        2 => {
            for c in 1..(3 + s.pick(2)) {
                per_conn.push((c, vec!["JOIN #new".into()]));
            }
            if s.chance(50) {
                per_conn[0].1.push("MODE #new +i".into());
            }
            new_channel = Some("#new".to_string());
            "first-join-race"
        }
        3 => {
            let l = 2 + s.pick(2);
            prefix.push((0, "JOIN #lim".into()));
            prefix.push((0, format!("MODE #lim +l {}", l)));
            // (sometimes the racers hold invitations, or are invited during the burst: an
            // invitation never lifts the limit)
            let invited = s.chance(40);
            if invited {
                for c in 1..4 {
                    if s.chance(70) {
                        prefix.push((0, format!("INVITE n{} #lim", c)));
                    }
                }
            }
            for c in 1..4 {
                per_conn.push((c, vec!["JOIN #lim".into()]));
            }
            if invited && s.chance(50) {
                per_conn.push((0, vec!["INVITE n3 #lim".into()]));
            }
            limit = Some(("#lim".to_string(), l));
            "limit-race"
        }
        4 => {
            prefix.push((0, "JOIN #m".into()));
            let m = ["MODE #m +i", "MODE #m +k key", "MODE #m +b *!*@*", "MODE #m +l 1"][s.pick(4)];
            per_conn.push((0, vec![m.to_string()]));
            per_conn.push((1, vec!["JOIN #m".into()]));
            per_conn.push((2, vec![if s.chance(50) { "JOIN #m".into() } else { "JOIN #m key".into() }]));
            "mode-vs-join"
        }
        5 => {
            for c in 0..3 {
                prefix.push((c, "JOIN #k".into()));
            }
            per_conn.push((0, vec!["KICK #k n1 :out".into()]));
            per_conn.push((1, vec!["PRIVMSG #k :from n1 first".into(), "PRIVMSG #k :from n1 second".into()]));
            per_conn.push((2, vec!["PRIVMSG #k :from n2".into()]));
            "kick-vs-privmsg"
        }
        6 => {
            per_conn.push((1, vec!["PRIVMSG n2 :a1".into(), "PRIVMSG z :a2".into()]));
            per_conn.push((2, vec!["NICK z".into()]));
            per_conn.push((3, vec!["PRIVMSG z :b1".into(), "PRIVMSG n2 :b2".into()]));
            "privmsg-vs-nick"
        }
        7 => {
            prefix.push((0, "OPER op0 operpw0".into()));
            prefix.push((1, "JOIN #q".into()));
            prefix.push((2, "JOIN #q".into()));
            per_conn.push((0, vec!["KILL n1 :gone".into()]));
            per_conn.push((1, vec!["PRIVMSG #q :last words".into(), "NICK n1b".into()]));
            per_conn.push((2, vec!["PRIVMSG n1 :hello".into(), "NAMES #q".into()]));
            "kill-vs-activity"
        }
        8 => {
            prefix.push((0, "JOIN #e".into()));
            prefix.push((0, "TOPIC #e :old topic".into()));
            per_conn.push((0, vec!["PART #e".into()]));
            per_conn.push((1, vec!["JOIN #e".into()]));
            per_conn.push((2, vec!["JOIN #e".into()]));
            "last-part-vs-join"
        }
        9 | 10 => {
            // a rank / membership that a command was checked against disappears concurrently
            for c in 0..3 {
                prefix.push((c, "JOIN #k".into()));
            }
            prefix.push((0, "MODE #k +t".into()));
            prefix.push((0, "MODE #k +h n1".into()));
            let a = ["KICK #k n1 :out", "MODE #k -h n1", "KICK #k n1,n2 :both"][s.pick(3)];
            per_conn.push((0, vec![a.to_string()]));
            per_conn.push((1, vec!["TOPIC #k :changed by n1".into()]));
            if s.chance(50) {
                per_conn.push((2, vec!["TOPIC #k".into(), "NAMES #k".into()]));
            }
            "topic-vs-kick"
        }
        13 => {
            // readers that list +i users while writers queue for the lock
            prefix.push((0, "MODE n0 +i".into()));
            prefix.push((1, "MODE n1 +i".into()));
            prefix.push((0, "JOIN #w".into()));
            prefix.push((1, "JOIN #w".into()));
            per_conn.push((0, vec!["WHO #w".into(), "WHO *".into(), "WHOIS n1".into()]));
            per_conn.push((1, vec!["AWAY :brb".into(), "AWAY".into()]));
            per_conn.push((2, vec!["JOIN #w".into(), "WHO n*".into()]));
            per_conn.push((3, vec!["NICK n3b".into()]));
            "readers-vs-writers"
        }
        11 | 12 => {
            // one message to several channels vs one JOIN / PART of the same list: the joiner must
            // get each message on all of the channels or on none of them
            prefix.push((0, "JOIN #a1,#a2,#a3,#a4".into()));
            if s.chance(50) {
                prefix.push((1, "JOIN #a1,#a2,#a3,#a4".into()));
                per_conn.push((1, vec!["PART #a1,#a2,#a3,#a4".into()]));
            } else {
                per_conn.push((1, vec!["JOIN #a1,#a2,#a3,#a4".into()]));
            }
            per_conn.push((0, vec!["PRIVMSG #a1,#a2,#a3,#a4 :to all four (1)".into(), "PRIVMSG #a4,#a3,#a2,#a1 :to all four (2)".into()]));
            if s.chance(40) {
                per_conn.push((2, vec!["WHO #a1".into(), "WHO *".into()]));
            }
            "multi-target-vs-join"
        }
        20 | 21 | 22 => {
            // the victim of a KICK leaves, renames or disconnects at the same moment
            for c in 0..3 {
                prefix.push((c, "JOIN #k".into()));
            }
            per_conn.push((0, vec![["KICK #k n1 :out", "KICK #k n1,n2 :both", "KICK #k n2,n1"][s.pick(3)].into()]));
            per_conn.push((1, vec![["PART #k", "NICK n1b", "QUIT :bye", "JOIN 0", "PART #k :leaving anyway"][s.pick(5)].into()]));
            if s.chance(40) {
                per_conn.push((2, vec![["PRIVMSG #k :meanwhile", "PART #k", "NAMES #k"][s.pick(3)].into()]));
            }
            "kick-vs-leave"
        }
        23 | 24 => {
            // somebody claims the nick of a user that is being killed: the victim's clean-up must
            // never take the new owner away
            prefix.push((0, "OPER op0 operpw0".into()));
            prefix.push((1, "JOIN #q".into()));
            per_conn.push((0, vec!["KILL n1 :gone".into()]));
            per_conn.push((2, if s.chance(50) { vec!["NICK n1".into()] } else { vec!["NICK n1".into(), "NICK n1".into()] }));
            if s.chance(40) {
                per_conn.push((3, vec![["WHOIS n1", "PRIVMSG n1 :are you there", "ISON n1"][s.pick(3)].into()]));
            }
            "kill-vs-takeover"
        }
        25 | 26 | 27 => {
            // a channel MODE by a member whose rank (or membership) is taken away at the same moment
            for c in 0..3 {
                prefix.push((c, "JOIN #k".into()));
            }
            prefix.push((0, "MODE #k +o n1".into()));
            per_conn.push((1, vec![["MODE #k +m", "MODE #k +t", "MODE #k +o n2", "MODE #k +k key", "MODE #k +b *!*@10.0.0.3", "MODE #k -o n0"][s.pick(6)].into()]));
            per_conn.push((0, vec![["KICK #k n1 :out", "MODE #k -o n1", "KICK #k n1,n2"][s.pick(3)].into()]));
            if s.chance(40) {
                per_conn.push((2, vec![["PRIVMSG #k :meanwhile", "MODE #k", "JOIN #k"][s.pick(3)].into()]));
            }
            "mode-vs-kick"
        }
        14..=19 => {
            // any pair of handlers: two or three connections send one or two commands each, drawn
            // from a broad vocabulary over a prepared scene (n0 founder of #r and oper, n1 operator
            // of #r, n2 plain member, n3 outsider holding an invitation half of the time)
            prefix.push((0, "JOIN #r".into()));
            prefix.push((1, "JOIN #r".into()));
            prefix.push((2, "JOIN #r".into()));
            prefix.push((0, "MODE #r +o n1".into()));
            prefix.push((0, "OPER op0 operpw0".into()));
            if s.chance(50) {
                prefix.push((0, "INVITE n3 #r".into()));
            }
            if s.chance(30) {
                prefix.push((0, ["MODE #r +t", "MODE #r +m", "MODE #r +i", "MODE #r +s", "MODE #r +n", "MODE #r +l 4", "MODE #r +k key"][s.pick(7)].into()));
            }
            if s.chance(30) {
                prefix.push((3, "JOIN #r2".into()));
                prefix.push((2, "JOIN #r2".into()));
            }
            let nact = 2 + s.pick(2);
            let mut actors: Vec<usize> = vec![0, 1, 2, 3];
            while actors.len() > nact {
                let k = s.pick(actors.len());
                actors.remove(k);
            }
            let budget = if nact == 2 { [2, 2] .to_vec() } else { vec![2, 2, 1] };
            for (ai, a) in actors.iter().enumerate() {
                let me = format!("n{}", a);
                let other = format!("n{}", (a + 1 + s.pick(3)) % 4);
                let mut v = vec![];
                let n = 1 + s.pick(budget[ai]);
                for _ in 0..n {
                    let l: String = match s.pick(34) {
                        0 => "JOIN #r".into(),
                        1 => "PART #r".into(),
                        2 => "JOIN #r2,#r".into(),
                        3 => "PART #r,#r2 :bye".into(),
                        4 => "PRIVMSG #r :to the channel".into(),
                        5 => format!("PRIVMSG {},#r :to both", other),
                        6 => "NOTICE #r,#r2 :note".into(),
                        7 => format!("NICK {}b", me),
                        8 => "TOPIC #r :new topic".into(),
                        9 => "TOPIC #r".into(),
                        10 => ["MODE #r +m", "MODE #r -m", "MODE #r +t", "MODE #r +i", "MODE #r -i", "MODE #r +s", "MODE #r +n"][s.pick(7)].into(),
                        11 => format!("MODE #r +v {}", other),
                        12 => format!("MODE #r -o {}", other),
                        13 => format!("MODE #r +o {}", other),
                        14 => format!("MODE #r +b *!*@10.0.0.{}", 1 + s.pick(4)),
                        15 => ["MODE #r +k key", "MODE #r -k key", "MODE #r +l 3", "MODE #r -l"][s.pick(4)].into(),
                        16 => format!("KICK #r {}", other),
                        17 => format!("INVITE {} #r", other),
                        18 => "AWAY :gone fishing".into(),
                        19 => "AWAY".into(),
                        20 => "WHO #r".into(),
                        21 => format!("WHOIS {}", other),
                        22 => "NAMES #r".into(),
                        23 => "LIST".into(),
                        24 => format!("USERHOST n0 n1 n2 n3"),
                        25 => "QUIT :leaving".into(),
                        26 => format!("MODE {} +i", me),
                        27 => format!("MODE {} +w", me),
                        28 => "WALLOPS :attention".into(),
                        29 => format!("PRIVMSG {} :direct", other),
                        30 => "LUSERS".into(),
                        31 => "JOIN 0".into(),
                        32 => format!("WHOWAS {}", other),
                        _ => "MODE #r".into(),
                    };
                    let quit = l.starts_with("QUIT");
                    v.push(l);
                    if quit {
                        break;
                    }
                }
                per_conn.push((*a, v));
            }
            "random-mix"
        }
        _ => {
            prefix.push((0, "JOIN #v".into()));
            prefix.push((0, "MODE #v +i".into()));
            per_conn.push((0, vec!["INVITE n1 #v".into(), "MODE #v -i".into()]));
            per_conn.push((1, vec!["JOIN #v".into(), "JOIN #v".into()]));
            per_conn.push((2, vec!["JOIN #v".into()]));
            "invite-vs-join"
        }
    };
    // A slow writer at the head of the burst (OPER verifies an Argon2 hash under the state lock):
    // everybody else queues behind it and is released at the same moment, which turns the
    // nanosecond windows of check-then-act defects into milliseconds on the parallel engine.
    let spare: Option<usize> = [3usize, 0, 2, 1].iter().copied().find(|c| !per_conn.iter().any(|(pc, _)| *pc == *c));
    let slow_head = kind != "register-race" && spare.is_some() && s.chance(35);
    // global write order: random merge of the per-connection sequences
    let mut idx: Vec<usize> = vec![0; per_conn.len()];
    let mut burst = vec![];
    if slow_head {
        burst.push((spare.unwrap(), ["OPER op0 not-the-password", "OPER op0 operpw0"][s.pick(2)].to_string()));
    }
    loop {
        let avail: Vec<usize> = (0..per_conn.len()).filter(|i| idx[*i] < per_conn[*i].1.len()).collect();
        if avail.is_empty() {
            break;
        }
        let k = avail[s.pick(avail.len())];
        burst.push((per_conn[k].0, per_conn[k].1[idx[k]].clone()));
        idx[k] += 1;
    }
    let ny = s.pick(12);
    let yields: Vec<u8> = (0..ny).map(|_| s.pick(4) as u8).collect();
    Plan { cfg, nconns, prefix, burst, kind, yields, contested_nick, new_channel, limit }
}

fn light(line: &str) -> Option<String> {
    let m = refparse::parse(line).ok()?;
    match m.command.as_str() {
        "002" | "003" | "004" | "005" => None,
        // wall-clock dependent numerics: idle/sign-on time, creation time, topic time
        // 312 after WHOWAS carries "Logged in at <wall clock>" instead of the server info
        "312" if m.params.last().map_or(false, |t| t.starts_with("Logged in at")) => Some(format!(
            "{} 312 {} (logged in at)",
            m.source.clone().unwrap_or_default(),
            m.params.get(1).cloned().unwrap_or_default()
        )),
        "317" | "329" | "333" => Some(format!(
            "{} {} {}",
            m.source.clone().unwrap_or_default(),
            m.command,
            m.params.get(1).cloned().unwrap_or_default()
        )),
        "324" => {
            // "+flags [args]" then "+q nick" style pairs from hash sets: sort the pairs
            let p: Vec<String> = m.params.iter().skip(1).cloned().collect();
            let mut toks: Vec<String> = p.iter().skip(1).flat_map(|x| x.split(' ').map(|y| y.to_string()).collect::<Vec<_>>()).filter(|x| !x.is_empty()).collect();
            let mut head = vec![];
            let mut pairs = vec![];
            while !toks.is_empty() {
                let t = toks.remove(0);
                if t.len() == 2 && (t.starts_with('+')) && "qaohvbeI".contains(&t[1..]) && !toks.is_empty() {
                    let a = toks.remove(0);
                    pairs.push(format!("{} {}", t, a));
                } else {
                    head.push(t);
                }
            }
            pairs.sort();
            Some(format!("{} 324 {} {} {}", m.source.unwrap_or_default(), p.first().cloned().unwrap_or_default(), head.join(" "), pairs.join(" ")))
        }
        "353" | "319" => {
            let mut p = m.params.clone();
            if let Some(last) = p.last_mut() {
                let mut v: Vec<&str> = last.split(' ').filter(|x| !x.is_empty()).collect();
                v.sort();
                *last = v.join(" ");
            }
            // (the <client> parameter is dropped as for every numeric)
            let code = m.command.clone();
            Some(format!("{} {} {}", m.source.unwrap_or_default(), code, p[1.min(p.len())..].join(" ")))
        }
        c if c.len() == 3 && c.chars().all(|x| x.is_ascii_digit()) => {
            // the <client> parameter of a numeric (nick, user name or address the server uses to
            // address the connection) is cosmetic: it is not part of the outcome
            let rest: Vec<String> = m.params.iter().skip(1).cloned().collect();
            Some(format!("{} {} {}", m.source.unwrap_or_default(), c, rest.join(" ")))
        }
        _ => Some(line.to_string()),
    }
}

#[derive(Debug, Clone, PartialEq)]
struct Outcome {
    replies: BTreeMap<usize, Vec<String>>,
    relays: BTreeMap<(String, usize), Vec<String>>,
    digest: BTreeMap<usize, Vec<NL>>,
    eof: BTreeSet<usize>,
}

// The server walks hash sets for "every target of one command" and "every user": the order of
// the copies of ONE message to several targets, and of the rows of one WHO listing, is not part
// of the outcome.  Sort each maximal run of such sibling lines.
fn sibling_key(line: &str) -> Option<String> {
    // numerics are in the `light` form "<source> <code> <params...>"
    let mut t = line.split(' ');
    match (t.next(), t.next(), t.next()) {
        (Some(_), Some("352"), Some(mask)) => return Some(format!("352 {}", mask)),
        (Some(_), Some("322"), _) => return Some("322".to_string()),
        _ => {}
    }
    let m = refparse::parse(line).ok()?;
    match m.command.as_str() {
        "352" => Some(format!("352 {}", m.params.first().cloned().unwrap_or_default())),
        "PRIVMSG" | "NOTICE" => Some(format!(
            "{} {} {}",
            m.source.clone().unwrap_or_default(),
            m.command,
            m.params.last().cloned().unwrap_or_default()
        )),
        _ => None,
    }
}

fn canon_runs(v: &mut Vec<String>) {
    let mut i = 0;
    while i < v.len() {
        let k = sibling_key(&v[i]);
        let mut j = i + 1;
        if k.is_some() {
            while j < v.len() && sibling_key(&v[j]) == k {
                j += 1;
            }
            v[i..j].sort();
        }
        i = j;
    }
}

// Lines with a user prefix reach a connection on two paths: through its FIFO queue (everything
// other users cause, and the own copy of a channel broadcast) or written directly by its own
// handler (the echo of the own JOIN and of the own user MODE).  Order is defined within a path
// only: a queued line of an earlier command may be written after the direct echo of a later one.
fn stream_key(l: &str, c: usize) -> String {
    let mut t = l[1..].split(' ');
    let src = t.next().unwrap_or("").to_string();
    let cmd = t.next().unwrap_or("");
    let target = t.next().unwrap_or("");
    let nick = src.split('!').next().unwrap_or("");
    let own = nick == format!("n{}", c) || nick == format!("n{}b", c) || (c >= 4 && ["x", "y", "z", "xa", "xb"].contains(&nick));
    let direct = (cmd == "MODE" && !target.starts_with('#') && !target.starts_with('&')) || (cmd == "JOIN" && own);
    if direct {
        format!("{} (own echo)", src)
    } else {
        src
    }
}

// Known finding F12: the LUSERS block of the welcome burst is computed under a lock taken after
// the registration became visible, so it can count a registration that completed in between.
// `blank_welcome_lusers` removes the numbers of that block (the lines between 001 and 376).
fn blank_welcome_lusers(o: &Outcome) -> Outcome {
    let mut o = o.clone();
    for v in o.replies.values_mut() {
        let mut in_welcome = false;
        for l in v.iter_mut() {
            let code = l.split(' ').nth(1).unwrap_or("").to_string();
            if code == "001" {
                in_welcome = true;
            } else if code == "376" || code == "422" {
                in_welcome = false;
            } else if in_welcome && ["251", "252", "253", "254", "255", "265", "266"].contains(&code.as_str()) {
                *l = format!("{} {} (welcome counters)", l.split(' ').next().unwrap_or(""), code);
            }
        }
    }
    o
}

fn canon_outcome(mut o: Outcome) -> Outcome {
    // what was queued for a connection that leaves during the burst (QUIT, KILL, error) may or may
    // not be written before its socket closes: not part of the outcome
    let eof = o.eof.clone();
    o.relays.retain(|(_, c), _| !eof.contains(c));
    for v in o.replies.values_mut() {
        canon_runs(v);
    }
    for v in o.relays.values_mut() {
        canon_runs(v);
    }
    o
}

struct RunInfo {
    outcome: Outcome,
    log: Vec<String>,
    yields_taken: usize,
    raw: BTreeMap<usize, Vec<String>>,
}

const DIGEST_QUERIES: &[&str] = &[
    "NAMES",
    "LIST",
    "LUSERS",
    "WHO *",
    "WHOIS n0,n1,n2,n3,x,y,z,n1b,n0b,n2b,n3b,xa,xb",
    "ISON n0 n1 n2 n3 x y z n1b n0b n2b n3b xa xb",
    "WHOWAS n1",
    "WHOWAS n2",
];

fn execute(p: &Plan, order: &[(usize, String)], concurrent: bool, seed: u64) -> Result<RunInfo, Viol> {
    let mut w = World::new(p.cfg.to_main_config(), seed);
    let mut log = vec![];
    for _ in 0..p.nconns {
        w.connect();
    }
    for (c, l) in &p.prefix {
        w.send_line(*c, l);
        w.settle();
    }
    for c in 0..p.nconns {
        w.drain(c);
    }
    let mut raw: BTreeMap<usize, Vec<String>> = BTreeMap::new();
    let mut yields_taken = 0;
    if concurrent {
        install_schedule(p.yields.clone());
        for (c, l) in order {
            log.push(format!("c{} > {}", c, l));
            w.send_line(*c, l);
        }
        w.settle();
        yields_taken = clear_schedule();
        for c in 0..p.nconns {
            let ls = w.drain(c);
            for l in &ls {
                log.push(format!("c{} < {}", c, l));
            }
            raw.entry(c).or_default().extend(ls);
        }
    } else {
        for (c, l) in order {
            log.push(format!("c{} > {}", c, l));
            w.send_line(*c, l);
            w.settle();
            for cc in 0..p.nconns {
                let ls = w.drain(cc);
                for l in &ls {
                    log.push(format!("c{} < {}", cc, l));
                }
                raw.entry(cc).or_default().extend(ls);
            }
        }
    }
    // no handler may abort
    for pn in crate::sim::take_panics() {
        if let Some(c) = pn.task {
            return Err(Viol::new(
                "C18.handler_abort",
                format!("panic:{}", p.kind),
                format!("handler of c{} aborted during the burst: {} at {}", c, pn.msg, pn.loc),
            )
            .with_transcript(log.clone()));
        }
    }
    let mut replies: BTreeMap<usize, Vec<String>> = BTreeMap::new();
    let mut relays: BTreeMap<(String, usize), Vec<String>> = BTreeMap::new();
    let server_prefix = format!(":{} ", SERVER_NAME);
    for (c, ls) in &raw {
        for l in ls {
            let Some(n) = light(l) else { continue };
            if l.starts_with(&server_prefix) {
                replies.entry(*c).or_default().push(n);
            } else {
                let src = stream_key(l, *c);
                relays.entry((src, *c)).or_default().push(n);
            }
        }
    }
    let mut eof = BTreeSet::new();
    for c in 0..p.nconns {
        if w.conns[c].eof {
            eof.insert(c);
        }
    }
    // liveness: every live connection still answers (PONG or 451)
    for c in 0..p.nconns {
        if eof.contains(&c) {
            continue;
        }
        w.send_line(c, "PING alive");
        w.settle();
        let ls = w.drain(c);
        if !ls.iter().any(|l| l.contains(" PONG ") || l.contains(" 451 ")) {
            log.push(format!("c{} > PING alive   -> {:?}", c, ls));
            return Err(Viol::new(
                "C18.liveness",
                format!("no-answer:{}", p.kind),
                format!("after the burst c{} does not answer PING any more", c),
            )
            .with_transcript(log.clone()));
        }
    }
    // final-state digest from every registered viewpoint
    let mut digest = BTreeMap::new();
    for c in 0..p.nconns {
        if eof.contains(&c) {
            continue;
        }
        let mut all: Vec<String> = vec![];
        for q in DIGEST_QUERIES {
            w.send_line(c, q);
            w.settle();
            all.extend(w.drain(c));
        }
        for extra in ["#new", "#lim", "#m", "#k", "#q", "#e", "#v", "#w", "#a1", "#a4", "#r", "#r2"] {
            w.send_line(c, &format!("MODE {}", extra));
            w.send_line(c, &format!("TOPIC {}", extra));
            w.settle();
            all.extend(w.drain(c));
        }
        let mut items = norm::normalise(SERVER_NAME, &all).items;
        items.sort();
        // an unregistered connection only ever gets 451: its "view" carries no information
        if !items.iter().all(|i| i[1] == "451") {
            digest.insert(c, items);
        }
    }
    let _ = crate::sim::take_panics();
    Ok(RunInfo { outcome: canon_outcome(Outcome { replies, relays, digest, eof }), log, yields_taken, raw })
}

fn interleavings(per_conn: &BTreeMap<usize, Vec<String>>, cap: usize) -> Vec<Vec<(usize, String)>> {
    fn rec(
        per: &BTreeMap<usize, Vec<String>>,
        idx: &mut BTreeMap<usize, usize>,
        cur: &mut Vec<(usize, String)>,
        out: &mut Vec<Vec<(usize, String)>>,
        total: usize,
        cap: usize,
    ) {
        if out.len() >= cap {
            return;
        }
        if cur.len() == total {
            out.push(cur.clone());
            return;
        }
        let keys: Vec<usize> = per.keys().cloned().collect();
        for k in keys {
            let i = idx[&k];
            if i < per[&k].len() {
                cur.push((k, per[&k][i].clone()));
                *idx.get_mut(&k).unwrap() += 1;
                rec(per, idx, cur, out, total, cap);
                *idx.get_mut(&k).unwrap() -= 1;
                cur.pop();
            }
        }
    }
    let total = per_conn.values().map(|v| v.len()).sum();
    let mut idx: BTreeMap<usize, usize> = per_conn.keys().map(|k| (*k, 0)).collect();
    let mut out = vec![];
    rec(per_conn, &mut idx, &mut vec![], &mut out, total, cap);
    out
}

pub fn check_burst(c: &BurstCase, st: &mut Stats) -> Result<(), Viol> {
    let p = plan(&c.seeds);
    let seed = c.seeds.get(1).copied().unwrap_or(0) as u64;
    let conc = execute(&p, &p.burst, true, seed)?;
    st.count(&format!("kind.{}", p.kind));
    st.add("yield_points_taken", conc.yields_taken as u64);
    // named invariants, asserted directly on the concurrent run
    if let Some(n) = &p.contested_nick {
        let winners: Vec<usize> = conc
            .raw
            .iter()
            .filter(|(_, ls)| {
                ls.iter().any(|l| {
                    (l.contains(" 001 ") && l.contains(&format!(" 001 {} ", n)))
                        || (l.contains(&format!(" NICK {}", n)) && !l.starts_with(&format!(":{}", SERVER_NAME)) && false)
                })
            })
            .map(|(c, _)| *c)
            .collect();
        // winners by NICK echo: the connection whose own source changed (it receives its own NICK line first)
        let mut nick_winners = 0;
        let mut seen_src: BTreeSet<String> = BTreeSet::new();
        for ls in conc.raw.values() {
            for l in ls {
                if let Ok(m) = refparse::parse(l) {
                    if m.command == "NICK" && m.params.get(0).map(|x| x.as_str()) == Some(n.as_str()) {
                        if let Some(src) = m.source {
                            if seen_src.insert(src) {
                                nick_winners += 1;
                            }
                        }
                    }
                }
            }
        }
        // the nick may change hands when its owner renames away during the burst
        let mut releases = 0;
        let mut seen_rel: BTreeSet<String> = BTreeSet::new();
        for ls in conc.raw.values() {
            for l in ls {
                if let Ok(m) = refparse::parse(l) {
                    if m.command == "NICK" && m.source.as_deref().map_or(false, |x| x.split('!').next() == Some(n.as_str())) && seen_rel.insert(l.clone()) {
                        releases += 1;
                    }
                }
            }
        }
        if winners.len() + nick_winners > 1 + releases {
            return Err(Viol::new(
                "C18.one_owner_per_nick",
                format!("two-winners:{}", p.kind),
                format!("nick {} was accepted for {} registrations and {} renames in one burst", n, winners.len(), nick_winners),
            )
            .with_transcript(conc.log.clone()));
        }
    }
    // the concurrent outcome must equal a sequential execution of the same commands
    let mut per_conn: BTreeMap<usize, Vec<String>> = BTreeMap::new();
    for (cc, l) in &p.burst {
        per_conn.entry(*cc).or_default().push(l.clone());
    }
    const CAP: usize = 150;
    let perms = interleavings(&per_conn, CAP);
    let capped = perms.len() >= CAP;
    st.add("sequential_replays", 0);
    let mut tried = 0;
    let mut matched = false;
    let mut closest: Option<(usize, Vec<String>)> = None;
    // the write order itself first (most likely linearization)
    let mut ordered: Vec<Vec<(usize, String)>> = vec![p.burst.clone()];
    ordered.extend(perms.into_iter().filter(|x| *x != p.burst));
    for perm in &ordered {
        tried += 1;
        let seq = execute(&p, perm, false, seed)?;
        if seq.outcome == conc.outcome {
            matched = true;
            break;
        }
        // keep a diff against the first candidate for the report
        if closest.is_none() {
            let mut d = vec![];
            for (k, v) in &conc.outcome.replies {
                if seq.outcome.replies.get(k) != Some(v) {
                    d.push(format!("replies of c{}: concurrent {:?} / sequential {:?}", k, v, seq.outcome.replies.get(k)));
                }
            }
            for (k, v) in &conc.outcome.relays {
                if seq.outcome.relays.get(k) != Some(v) {
                    d.push(format!("relays {:?}: concurrent {:?} / sequential {:?}", k, v, seq.outcome.relays.get(k)));
                }
            }
            for (k, v) in &conc.outcome.digest {
                if seq.outcome.digest.get(k) != Some(v) {
                    let a: BTreeSet<String> = v.iter().map(norm::show).collect();
                    let b: BTreeSet<String> = seq.outcome.digest.get(k).map(|x| x.iter().map(norm::show).collect()).unwrap_or_default();
                    d.push(format!("final state seen by c{}: only concurrent {:?} / only sequential {:?}", k, a.difference(&b).collect::<Vec<_>>(), b.difference(&a).collect::<Vec<_>>()));
                }
            }
            for (k, v) in &seq.outcome.replies {
                if !conc.outcome.replies.contains_key(k) {
                    d.push(format!("replies of c{}: concurrent none / sequential {:?}", k, v));
                }
            }
            for (k, v) in &seq.outcome.relays {
                if !conc.outcome.relays.contains_key(k) {
                    d.push(format!("relays {:?}: concurrent none / sequential {:?}", k, v));
                }
            }
            if seq.outcome.eof != conc.outcome.eof {
                d.push(format!("closed connections: concurrent {:?} / sequential {:?}", conc.outcome.eof, seq.outcome.eof));
            }
            closest = Some((tried, d));
        }
    }
    st.add("sequential_replays", tried as u64);
    let conflicting = p.burst.len() >= 2;
    if conflicting && (conc.yields_taken > 0 || p.yields.is_empty()) {
        st.nontrivial(format!("{}|y{}|{:?}", p.kind, conc.yields_taken.min(4), p.burst.iter().map(|b| b.0).collect::<Vec<_>>()), || {
            json!({"kind": p.kind, "burst": p.burst.iter().map(|(c, l)| format!("c{}: {}", c, l)).collect::<Vec<_>>(), "yield_schedule": p.yields, "yields_taken": conc.yields_taken, "sequential_orders_tried": tried})
        });
    }
    if !matched && capped {
        // not every order could be tried: inconclusive, never a violation
        st.count("inconclusive_interleaving_cap");
        return Ok(());
    }
    if !matched {
        // KILL is delivered to the victim's connection task as a signal: commands the victim
        // has already sent are still executed before it dies (known finding F11)
        let victim_acted_after_kill = p.kind == "kill-vs-activity"
            && conc.raw.get(&1).map_or(false, |ls| ls.iter().any(|l| l.contains("ERROR :User killed")));
        let mut t = conc.log.clone();
        t.push(format!("-- no sequential order of the {} burst commands ({} tried) reproduces this outcome; differences to the write order:", p.burst.len(), tried));
        if let Some((_, d)) = closest {
            t.extend(d.into_iter().take(12));
        }
        return Err(Viol::new(
            "C18.linearizable",
            if victim_acted_after_kill { "not-linearizable:kill-vs-activity:asynchronous-kill".to_string() } else { format!("not-linearizable:{}", p.kind) },
            format!("burst `{}` ({}) under yield schedule {:?}: outcome matches no sequential execution", p.burst.iter().map(|(c, l)| format!("c{}:{}", c, l)).collect::<Vec<_>>().join(" | "), p.kind, p.yields),
        )
        .with_transcript(t));
    }
    // direct invariants on the final state
    if let Some((ch, l)) = &p.limit {
        for items in conc.outcome.digest.values() {
            for it in items {
                if it[1] == "353" && it.get(2) == Some(ch) && it.len() - 4 > *l {
                    return Err(Viol::new("C18.limit_never_exceeded", "limit-exceeded", format!("{} has {} members with +l {}", ch, it.len() - 4, l)).with_transcript(conc.log.clone()));
                }
            }
        }
    }
    if let Some(ch) = &p.new_channel {
        for items in conc.outcome.digest.values() {
            for it in items {
                if it[1] == "353" && it.get(2) == Some(ch) {
                    let founders = it[4..].iter().filter(|e| e.starts_with('~')).count();
                    if founders != 1 {
                        return Err(Viol::new("C18.one_founder", "founders", format!("{} has {} founders after simultaneous first joins: {:?}", ch, founders, &it[4..])).with_transcript(conc.log.clone()));
                    }
                }
            }
        }
    }
    crate::sim::set_in_sim(false);
    Ok(())
}

// ------------------------------------------------------------------------------ (a) pipelines
#[derive(Clone, Debug, Serialize, Deserialize)]
pub struct PipeCase {
    pub seeds: Vec<u16>,
}

pub fn check_pipeline(c: &PipeCase, st: &mut Stats) -> Result<(), Viol> {
    let mut s = S::new(&c.seeds);
    let seed = s.raw() as u64;
    // (a fifth of the cases have a big channel: 10-12 connections, all on #p)
    let big = s.chance(20);
    let n = if big { 10 + s.pick(3) } else { 2 + s.pick(5) };
    let mut w = World::new(CfgSpec::default().to_main_config(), seed);
    for i in 0..n {
        let c = w.connect();
        w.send_line(c, &format!("NICK p{}", i));
        w.send_line(c, &format!("USER u{} 0 * :Pipe {}", i, i));
        w.settle();
        w.drain(c);
    }
    for i in 0..n {
        if big || s.chance(70) {
            w.send_line(i, "JOIN #p");
        }
        w.settle();
    }
    for i in 0..n {
        w.drain(i);
    }
    // build per-connection pipelines: command k followed by PING k
    let mut pipes: Vec<Vec<(String, &'static str)>> = vec![];
    // (in a sixth of the cases one connection floods one other with 30-90 messages in a row)
    let flood: Option<(usize, usize)> = if s.chance(16) { Some((s.pick(n), s.pick(n))) } else { None };
    // what every connection must receive as direct messages: (sender, number)
    let mut due: Vec<BTreeSet<(usize, usize)>> = vec![BTreeSet::new(); n];
    for i in 0..n {
        let flooding = flood.map_or(false, |(f, _)| f == i);
        let len = if flooding { 30 + s.pick(61) } else { 5 + s.pick(26) };
        let mut v = vec![];
        for k in 1..=len {
            let kind = if flooding { 0 } else { s.pick(9) };
            let target = if flooding { flood.unwrap().1 } else { s.pick(n) };
            if kind <= 2 {
                due[target].insert((i, k));
            }
            let (l, exp): (String, &'static str) = match kind {
                0 | 1 | 2 => (format!("PRIVMSG p{} :s{}-{}", target, i, k), "msg"),
                3 => (format!("PRIVMSG #p :s{}-{}", i, k), "msg"),
                4 => ("NAMES #p".to_string(), "366"),
                5 => (format!("WHOIS p{}", target), "318"),
                6 => ("LUSERS".to_string(), "266"),
                7 => (format!("ISON p{} p{}", target, (target + 1) % n), "303"),
                _ => ("WHO #p".to_string(), "315"),
            };
            v.push((l, exp));
        }
        pipes.push(v);
    }
    // write everything without waiting, in a random connection order and chunking
    install_schedule((0..s.pick(8)).map(|_| s.pick(4) as u8).collect());
    let mut order: Vec<usize> = (0..n).collect();
    for i in (1..order.len()).rev() {
        let j = s.pick(i + 1);
        order.swap(i, j);
    }
    let total: usize = pipes.iter().map(|p| p.len()).sum();
    for &i in &order {
        let mut blob = String::new();
        for (k, (l, _)) in pipes[i].iter().enumerate() {
            blob += l;
            blob += "\r\n";
            blob += &format!("PING {}\r\n", k + 1);
        }
        let bytes = blob.into_bytes();
        let chunk = [bytes.len(), 1 + s.pick(64), 1 + s.pick(700)][s.pick(3)].max(1);
        for ch in bytes.chunks(chunk) {
            w.send_bytes(i, ch);
        }
    }
    w.settle();
    clear_schedule();
    let server_prefix = format!(":{} ", SERVER_NAME);
    let mut log = vec![];
    for i in 0..n {
        let ls = w.drain(i);
        let mut seg = 1usize; // the segment we are in = index of the next expected PONG
        let mut seen_end = false;
        let mut last_from: BTreeMap<usize, usize> = BTreeMap::new();
        let mut got_direct: BTreeSet<(usize, usize)> = BTreeSet::new();
        for l in &ls {
            log.push(format!("c{} < {}", i, l));
            if l.starts_with(&server_prefix) {
                let m = refparse::parse(l).map_err(|_| Viol::new("C18.order", "unparsable", format!("c{} got {:?}", i, l)))?;
                if m.command == "PONG" {
                    let tok: usize = m.params.last().and_then(|t| t.parse().ok()).unwrap_or(0);
                    if tok != seg {
                        return Err(Viol::new("C18.reply_order", "pong-out-of-order", format!("c{} received PONG {} where PONG {} was due", i, tok, seg)).with_transcript(log.clone()));
                    }
                    let (cmd, exp) = &pipes[i][seg - 1];
                    if *exp != "msg" && !seen_end {
                        return Err(Viol::new(
                            "C18.reply_order",
                            "reply-missing-in-segment",
                            format!("c{}: the reply {} to command #{} `{}` did not arrive before PONG {}", i, exp, seg, cmd, seg),
                        )
                        .with_transcript(log.clone()));
                    }
                    seg += 1;
                    seen_end = false;
                } else {
                    if seg > pipes[i].len() {
                        return Err(Viol::new("C18.reply_order", "reply-after-last", format!("c{} got `{}` after its last PONG", i, l)).with_transcript(log.clone()));
                    }
                    let (cmd, exp) = &pipes[i][seg - 1];
                    let allowed: &[&str] = match *exp {
                        "msg" => &["401", "403", "404", "301"],
                        "366" => &["353", "366"],
                        "318" => &["311", "312", "313", "317", "318", "319", "307", "378", "379"],
                        "266" => &["251", "252", "253", "254", "255", "265", "266"],
                        "303" => &["303"],
                        _ => &["352", "315"],
                    };
                    if !allowed.contains(&m.command.as_str()) {
                        return Err(Viol::new(
                            "C18.reply_order",
                            "reply-in-wrong-segment",
                            format!("c{}: `{}` arrived in the segment of command #{} `{}`", i, l, seg, cmd),
                        )
                        .with_transcript(log.clone()));
                    }
                    if m.command == *exp {
                        seen_end = true;
                    }
                }
            } else if l.contains(" PRIVMSG ") {
                // :pX!.. PRIVMSG target :sX-k  -> per sender increasing k
                if let Some(t) = l.rsplit(":s").next() {
                    let mut it = t.split('-');
                    if let (Some(a), Some(b)) = (it.next().and_then(|x| x.parse::<usize>().ok()), it.next().and_then(|x| x.parse::<usize>().ok())) {
                        if l.contains(&format!(" PRIVMSG p{} :", i)) && !got_direct.insert((a, b)) {
                            return Err(Viol::new("C18.every_message_delivered_once", "relay-twice", format!("c{} received message #{} of p{} twice", i, b, a)).with_transcript(log.clone()));
                        }
                        let prev = last_from.insert(a, b).unwrap_or(0);
                        if b <= prev {
                            return Err(Viol::new(
                                "C18.sender_receiver_order",
                                "relay-out-of-order",
                                format!("c{} received message #{} of p{} after message #{}", i, b, a, prev),
                            )
                            .with_transcript(log.clone()));
                        }
                    }
                }
            }
        }
        if got_direct != due[i] {
            let lost: Vec<&(usize, usize)> = due[i].difference(&got_direct).take(4).collect();
            let invented: Vec<&(usize, usize)> = got_direct.difference(&due[i]).take(4).collect();
            return Err(Viol::new(
                "C18.every_message_delivered_once",
                "relay-lost",
                format!("c{} was sent {} direct messages and received {}: lost (sender, number) {:?}, never sent {:?}", i, due[i].len(), got_direct.len(), lost, invented),
            )
            .with_transcript(log.iter().rev().take(40).rev().cloned().collect()));
        }
        if seg != pipes[i].len() + 1 {
            return Err(Viol::new("C18.liveness", "pipeline-incomplete", format!("c{} got {} of {} PONGs", i, seg - 1, pipes[i].len())).with_transcript(log.clone()));
        }
    }
    for pn in crate::sim::take_panics() {
        if let Some(c) = pn.task {
            return Err(Viol::new("C18.handler_abort", "panic:pipeline", format!("handler of c{} aborted: {} at {}", c, pn.msg, pn.loc)).with_transcript(log.clone()));
        }
    }
    st.add("pipelined_commands", total as u64);
    st.nontrivial(format!("n{}|t{}|o{:?}", n, total / 10, order), || {
        json!({"connections": n, "pipelined_commands": total, "write_order": order, "first_pipeline": pipes[0].iter().take(6).map(|x| x.0.clone()).collect::<Vec<_>>()})
    });
    crate::sim::set_in_sim(false);
    Ok(())
}

fn burst_strat() -> impl Strategy<Value = BurstCase> {
    prop::collection::vec(any::<u16>(), 48).prop_map(|seeds| BurstCase { seeds })
}

fn pipe_strat() -> impl Strategy<Value = PipeCase> {
    prop::collection::vec(any::<u16>(), 1500).prop_map(|seeds| PipeCase { seeds })
}

// ------------------------------------------------------------------------ (d) slow reader
// One client pipelines commands with very long replies and does not read; its connection's
// buffers fill up.  Everybody else must still be served (a handler that writes to a full socket
// while it holds the state lock stops the whole server), and once the slow client reads again it
// gets every reply, complete and in order.
#[derive(Clone, Debug, Serialize, Deserialize)]
pub struct SlowCase {
    pub seeds: Vec<u16>,
}

fn slow_strat() -> impl Strategy<Value = SlowCase> {
    prop::collection::vec(any::<u16>(), 8).prop_map(|seeds| SlowCase { seeds })
}

fn check_slow_reader(c: &SlowCase, st: &mut Stats) -> Result<(), Viol> {
    let mut s = S::new(&c.seeds);
    let seed = s.raw() as u64;
    let cfg = CfgSpec::default();
    let mut w = World::new(cfg.to_main_config(), seed);
    w.duplex_cap = [8192usize, 16384, 65536][s.pick(3)];
    let mut log: Vec<String> = vec![];
    for i in 0..3 {
        let c = w.connect();
        w.send_line(c, &format!("NICK n{}", i));
        w.send_line(c, &format!("USER u{} 0 * :Real n{}", i, i));
        w.settle();
        w.drain(c);
    }
    // reply sizes around the interesting thresholds (a reply is 2 + nchan lines for LIST,
    // 2 * nchan for NAMES)
    let nchan = [20usize, 60, 100, 124, 126, 127, 128, 130, 140, 200][s.pick(10)];
    let mut i = 0;
    while i < nchan {
        let names: Vec<String> = (i..(i + 30).min(nchan)).map(|k| format!("#s{}", k)).collect();
        w.send_line(1, &format!("JOIN {}", names.join(",")));
        // keep reading while the (long) JOIN reply is produced
        for _ in 0..6 {
            w.settle();
            w.drain(1);
        }
        i += 30;
    }
    let verb = ["LIST", "NAMES", "LIST #s0,#s1,#s2", "WHO *", "MOTD"][s.pick(5)];
    let k = 5 + s.pick(40);
    log.push(format!("c1 is on {} channels and pipelines {} x `{}` without reading (socket buffer {} bytes)", nchan, k, verb, w.duplex_cap));
    let mut blob = String::new();
    for _ in 0..k {
        blob += verb;
        blob += "\r\n";
    }
    w.send_bytes(1, blob.as_bytes());
    w.settle();
    // the others go on
    let others = ["JOIN #alive", "PRIVMSG n2 :still alive?", "MODE #alive +m", "NICK n0x", "PRIVMSG n1 :wake up", "TOPIC #alive :yes"];
    let mut sent = vec![];
    for _ in 0..(2 + s.pick(3)) {
        let l = others[s.pick(others.len())];
        log.push(format!("c0 > {}", l));
        w.send_line(0, l);
        sent.push(l);
    }
    w.send_line(0, "PING stillhere");
    w.send_line(2, "PING metoo");
    w.settle();
    w.settle();
    let l0 = w.drain(0);
    let l2 = w.drain(2);
    for l in &l0 {
        log.push(format!("c0 < {}", l));
    }
    for l in &l2 {
        log.push(format!("c2 < {}", l));
    }
    let blocked = w.has_partial_output(1) || true;
    let _ = blocked;
    for p in crate::sim::take_panics() {
        if let Some(t) = p.task {
            return Err(Viol::new("C18.handler_abort", "panic:slow-reader", format!("handler of c{} aborted: {} at {}", t, p.msg, p.loc)).with_transcript(log.clone()));
        }
    }
    let a0 = l0.iter().any(|l| l.contains(" PONG ") && l.ends_with(":stillhere"));
    let a2 = l2.iter().any(|l| l.contains(" PONG ") && l.ends_with(":metoo"));
    st.nontrivial(format!("{}|{}|{}|{}", verb, nchan, k.min(20), w.duplex_cap), || json!({"slow_client_pipelines": format!("{} x {}", k, verb), "channels": nchan, "socket_buffer": w.duplex_cap, "others_send": sent}));
    if !a0 || !a2 {
        return Err(Viol::new(
            "C18.liveness",
            format!("stalled:slow-reader:{}", verb.split(' ').next().unwrap_or("")),
            format!(
                "while c1 ({} channels) does not read the replies to {} pipelined `{}`, the server stopped answering {}",
                nchan,
                k,
                verb,
                if !a0 { "c0" } else { "c2" }
            ),
        )
        .with_transcript(log));
    }
    // the slow client reads again: every reply arrives, complete and in order, then PING works
    w.send_line(1, "PING awake");
    let mut all: Vec<String> = vec![];
    for _ in 0..20_000 {
        w.settle();
        let ls = w.drain(1);
        let done = ls.iter().any(|l| l.contains(" PONG ") && l.ends_with(":awake"));
        all.extend(ls);
        if done {
            break;
        }
    }
    let end_code = match verb.split(' ').next().unwrap_or("") {
        "LIST" => " 323 ",
        "NAMES" => "",
        "WHO" => " 315 ",
        _ => " 376 ",
    };
    if !all.iter().any(|l| l.ends_with(":awake")) {
        log.push(format!("-- c1 read {} lines but never got the PONG", all.len()));
        return Err(Viol::new("C18.liveness", "stalled:slow-reader:self", "the slow client itself never gets the answer to its PING after it starts reading again".to_string()).with_transcript(log));
    }
    if !end_code.is_empty() {
        let ends = all.iter().filter(|l| l.contains(end_code)).count();
        if ends != k {
            log.push(format!("-- c1 got {} end-of-reply lines for {} commands", ends, k));
            return Err(Viol::new("C18.replies_complete", "slow-reader:replies-lost", format!("{} pipelined `{}` were answered with {} complete replies", k, verb, ends)).with_transcript(log));
        }
    }
    if verb == "LIST" {
        // each reply: 321, nchan x 322 (+ #alive when it exists), 323 - never interleaved
        let mut count = 0usize;
        let mut open = false;
        for l in &all {
            if l.contains(" 321 ") {
                if open {
                    return Err(Viol::new("C18.replies_in_order", "slow-reader:interleaved", "a LIST reply started inside another".to_string()).with_transcript(log));
                }
                open = true;
                count = 0;
            } else if l.contains(" 322 ") {
                count += 1;
            } else if l.contains(" 323 ") {
                open = false;
                if count < nchan {
                    log.push(format!("-- a LIST reply has {} rows, the client is on {} channels", count, nchan));
                    return Err(Viol::new("C18.replies_complete", "slow-reader:short-reply", format!("a LIST reply lists {} channels of {}", count, nchan)).with_transcript(log));
                }
            }
        }
    }
    crate::sim::set_in_sim(false);
    Ok(())
}

pub fn run(ctx: &RunCtx) -> Vec<PartOutcome> {
    vec![
        explore_with(ctx, "slow_reader", ctx.tier.pick(800, 12_000), 24, slow_strat, check_slow_reader),
        explore_with(ctx, "bursts", ctx.tier.pick(2_000, 40_000), 24, burst_strat, check_burst),
        explore_with(ctx, "pipelines", ctx.tier.pick(1_500, 25_000), 300, pipe_strat, check_pipeline),
        explore_with(ctx, "bursts_parallel", ctx.tier.pick(1_000, 20_000), 12, burst_strat, check_burst_mt),
        explore_with(ctx, "counters_parallel", ctx.tier.pick(48, 800), 8, counters_strat, check_counters_mt),
        explore_with(ctx, "teardown_under_load", ctx.tier.pick(16, 160), 4, counters_strat, check_teardown_under_load),
        explore_with(ctx, "lusers_snapshot", ctx.tier.pick(200, 3_000), 4, counters_strat, check_lusers_snapshot),
    ]
}

pub fn replay(part: &str, input: &Value) -> Option<Result<Result<(), Viol>, String>> {
    match part {
        "slow_reader" => Some(replay_input::<SlowCase>(input, check_slow_reader)),
        "bursts" => Some(replay_input::<BurstCase>(input, check_burst)),
        "pipelines" => Some(replay_input::<PipeCase>(input, check_pipeline)),
        "bursts_parallel" => Some(replay_input::<BurstCase>(input, check_burst_mt)),
        "counters_parallel" => Some(replay_input::<CounterCase>(input, check_counters_mt)),
        "teardown_under_load" => Some(replay_input::<CounterCase>(input, check_teardown_under_load)),
        "lusers_snapshot" => Some(replay_input::<CounterCase>(input, check_lusers_snapshot)),
        _ => None,
    }
}

// ---------------------------------------------------------------------------------------------
// MT part: the same bursts executed with true parallelism (multi-thread runtime, real time);
// the oracle is still "some sequential order, replayed deterministically on the SIM engine,
// gives the same outcome".

use crate::sim::MtWorld;
use std::time::Duration;

const WAIT: Duration = Duration::from_secs(4);

fn mt_line_barrier(w: &mut MtWorld, c: usize, line: &str, tok: &str) -> bool {
    // send `line` followed by PING tok and wait for the PONG (or 451 if unregistered / EOF)
    let start = w.conns[c].lines.len();
    w.send_bytes(c, format!("{}\r\nPING {}\r\n", line, tok).as_bytes());
    let t = tok.to_string();
    w.read_until(c, WAIT, &move |ls: &[String]| ls[start.min(ls.len())..].iter().any(|l| (l.contains(" PONG ") && l.ends_with(&format!(":{}", t))) || l.contains(" 451 ")))
        || w.conns[c].eof
}

// ------------------------------------------------------------------ (e) command counters
// The per-command counters that STATS m reports are shared by all connections: after N commands
// of one kind, sent by several connections at the same time, the counter has grown by exactly N
// (the count after any serial execution of the same commands).
#[derive(Clone, Debug, Serialize, Deserialize)]
pub struct CounterCase {
    pub seeds: Vec<u16>,
}

fn counters_strat() -> impl Strategy<Value = CounterCase> {
    prop::collection::vec(any::<u16>(), 6).prop_map(|seeds| CounterCase { seeds })
}

fn stats_m(w: &mut MtWorld, c: usize, tok: &str) -> Option<BTreeMap<String, u64>> {
    let start = w.conns[c].lines.len();
    if !mt_line_barrier(w, c, "STATS m", tok) {
        return None;
    }
    let mut m = BTreeMap::new();
    for l in &w.conns[c].lines[start..] {
        let t: Vec<&str> = l.split(' ').collect();
        if t.len() >= 5 && t[1] == "212" {
            if let Ok(n) = t[4].trim_start_matches(':').parse::<u64>() {
                m.insert(t[3].to_string(), n);
            }
        }
    }
    Some(m)
}

fn check_counters_mt(c: &CounterCase, st: &mut Stats) -> Result<(), Viol> {
    let mut s = S::new(&c.seeds);
    s.raw();
    let workers = [2usize, 4, 8][s.pick(3)];
    let mut cfg = CfgSpec::default();
    cfg.opers.push(OperSpec { name: "op0".into(), password: "operpw0".into(), mask: None });
    let mut w = MtWorld::new(cfg.to_main_config(), workers);
    let nconn = 3 + s.pick(4);
    for i in 0..nconn {
        let cc = w.connect();
        if !mt_line_barrier(&mut w, cc, &format!("NICK n{}\r\nUSER u{} 0 * :Real n{}", i, i, i), &format!("reg{}", i)) {
            st.count("inconclusive_realtime_wait");
            return Ok(());
        }
    }
    if !mt_line_barrier(&mut w, 0, "OPER op0 operpw0", "oper") {
        st.count("inconclusive_realtime_wait");
        return Ok(());
    }
    let Some(before) = stats_m(&mut w, 0, "sm1") else {
        st.count("inconclusive_realtime_wait");
        return Ok(());
    };
    let verbs = [("PING", "PING x"), ("ISON", "ISON n0 n1"), ("USERHOST", "USERHOST n0"), ("VERSION", "VERSION"), ("AWAY", "AWAY")];
    let (vname, vline) = verbs[s.pick(verbs.len())];
    let per = 100 + s.pick(500);
    let mut blob = String::new();
    for _ in 0..per {
        blob += vline;
        blob += "\r\n";
    }
    for cc in 1..nconn {
        w.send_bytes(cc, blob.as_bytes());
    }
    for cc in 1..nconn {
        if !mt_line_barrier(&mut w, cc, "PING sync", &format!("fin{}", cc)) {
            st.count("inconclusive_realtime_wait");
            return Ok(());
        }
    }
    let Some(after) = stats_m(&mut w, 0, "sm2") else {
        st.count("inconclusive_realtime_wait");
        return Ok(());
    };
    let senders = (nconn - 1) as u64;
    let mut sent: BTreeMap<&str, u64> = BTreeMap::new();
    *sent.entry(vname).or_insert(0) += per as u64 * senders;
    // the barriers: `PING sync` + `PING fin<c>` per sender, `STATS m` + `PING sm2` by the reader
    *sent.entry("PING").or_insert(0) += 2 * senders + 1;
    *sent.entry("STATS").or_insert(0) += 1;
    st.nontrivial(format!("{}|w{}|c{}|n{}", vname, workers, nconn, per / 100), || json!({"verb": vname, "workers": workers, "senders": senders, "per_sender": per}));
    for (k, want) in &sent {
        let got = after.get(*k).copied().unwrap_or(0).saturating_sub(before.get(*k).copied().unwrap_or(0));
        if got != *want {
            return Err(Viol::new(
                "C18.counters_exact",
                format!("counter-lost:{}", k),
                format!("{} connections sent {} x `{}` each at the same time ({} worker threads); STATS m shows {} grown by {} instead of {}", senders, per, vline, workers, k, got, want),
            ));
        }
    }
    Ok(())
}

// ------------------------------------------------------------- (e2) LUSERS is one snapshot
// Every LUSERS reply describes one moment: users + invisible (251) = clients (255) = current
// local users (265) = current global users (266), and the maxima are not below them - also while
// other connections register, change +i and leave at the same time.  (The LUSERS block of the
// welcome burst is known finding F12 and is not looked at here: the readers are registered
// before the churn starts.)
fn check_lusers_snapshot(c: &CounterCase, st: &mut Stats) -> Result<(), Viol> {
    let mut s = S::new(&c.seeds);
    s.raw();
    let workers = [2usize, 4, 8][s.pick(3)];
    let mut cfg = CfgSpec::default();
    if s.chance(40) {
        cfg.default_modes = "i".into();
    }
    let mut w = MtWorld::new(cfg.to_main_config(), workers);
    let readers = 1 + s.pick(3);
    for i in 0..readers {
        let cc = w.connect();
        if !mt_line_barrier(&mut w, cc, &format!("NICK r{}\r\nUSER ru{} 0 * :Reader {}", i, i, i), &format!("reg{}", i)) {
            st.count("inconclusive_realtime_wait");
            return Ok(());
        }
    }
    let churn = 6 + s.pick(20);
    let mut ch = vec![];
    for _ in 0..churn {
        ch.push(w.connect());
    }
    let per = 20 + s.pick(60);
    let mut blob = String::new();
    for _ in 0..per {
        blob += "LUSERS\r\n";
    }
    let start: Vec<usize> = (0..readers).map(|r| w.conns[r].lines.len()).collect();
    // readers and churners write at the same time
    for (k, cc) in ch.iter().enumerate() {
        if k % 3 == 0 {
            for r in 0..readers {
                w.send_bytes(r, blob.as_bytes());
            }
        }
        let mut b = format!("NICK x{}\r\nUSER xu{} 0 * :Churn {}\r\n", k, k, k);
        match s.pick(4) {
            0 => b += &format!("MODE x{} +i\r\nMODE x{} -i\r\n", k, k),
            1 => b += &format!("MODE x{} -i\r\nQUIT :done\r\n", k),
            2 => b += "QUIT :done\r\n",
            _ => {}
        }
        w.send_bytes(*cc, b.as_bytes());
    }
    for r in 0..readers {
        if !mt_line_barrier(&mut w, r, "PING sync", &format!("fin{}", r)) {
            st.count("inconclusive_realtime_wait");
            return Ok(());
        }
    }
    let num = |l: &str, after: &str| -> Option<u64> { l.split(after).nth(1).and_then(|x| x.trim().split(|c: char| !c.is_ascii_digit()).next().and_then(|d| d.parse().ok())) };
    let mut blocks = 0u64;
    let mut moving = BTreeSet::new();
    for r in 0..readers {
        let lines: Vec<String> = w.conns[r].lines[start[r]..].to_vec();
        let mut cur: BTreeMap<&str, (u64, u64)> = BTreeMap::new();
        let mut raw: Vec<String> = vec![];
        for l in &lines {
            let Ok(m) = refparse::parse(l) else { continue };
            let t = m.params.last().cloned().unwrap_or_default();
            match m.command.as_str() {
                "251" => {
                    cur.clear();
                    raw.clear();
                    // "There are N users and M invisible on 1 servers"
                    if let (Some(a), Some(b)) = (num(&t, "There are "), num(&t, " users and ")) {
                        cur.insert("251", (a, b));
                    }
                    raw.push(l.clone());
                }
                "255" => {
                    if let Some(a) = num(&t, "I have ") {
                        cur.insert("255", (a, 0));
                    }
                    raw.push(l.clone());
                }
                "265" | "266" => {
                    // "<cur> <max> :Current ... users <cur>, max <max>"
                    let a = m.params.get(1).and_then(|x| x.parse::<u64>().ok());
                    let b = m.params.get(2).and_then(|x| x.parse::<u64>().ok());
                    if let (Some(a), Some(b)) = (a, b) {
                        cur.insert(if m.command == "265" { "265" } else { "266" }, (a, b));
                    }
                    raw.push(l.clone());
                    if m.command == "266" {
                        blocks += 1;
                        if let (Some(u), Some(c255), Some(l265), Some(g266)) = (cur.get("251"), cur.get("255"), cur.get("265"), cur.get("266")) {
                            moving.insert(c255.0);
                            let total = u.0 + u.1;
                            if total != c255.0 || c255.0 != l265.0 || l265.0 != g266.0 || l265.1 < l265.0 || g266.1 < g266.0 {
                                return Err(Viol::new(
                                    "C18.lusers_is_one_snapshot",
                                    "lusers-torn",
                                    format!(
                                        "while {} connections registered / left ({} worker threads) r{} got a LUSERS reply that describes no single moment: {} users + {} invisible, {} clients, local {} (max {}), global {} (max {})",
                                        churn, workers, r, u.0, u.1, c255.0, l265.0, l265.1, g266.0, g266.1
                                    ),
                                )
                                .with_transcript(raw.clone()));
                            }
                        }
                    }
                }
                _ => {}
            }
        }
    }
    if let Some(r) = (0..readers).find(|r| w.conns[*r].eof) {
        let tail: Vec<String> = w.conns[r].lines.iter().rev().take(6).rev().cloned().collect();
        return Err(Viol::new("C18.lusers_is_one_snapshot", "lusers-reader-closed", format!("r{} only sent LUSERS while {} connections registered / left ({} worker threads) and was disconnected", r, churn, workers)).with_transcript(tail));
    }
    st.add("lusers_blocks_checked", blocks);
    if moving.len() >= 3 {
        st.nontrivial(format!("w{}|r{}|c{}|m{}", workers, readers, churn / 5, moving.len().min(8)), || json!({"workers": workers, "readers": readers, "churning_connections": churn, "lusers_per_reader": per * ((churn + 2) / 3), "distinct_client_counts_seen": moving.len()}));
    }
    Ok(())
}

// ------------------------------------------------------------- (f) session end under load
// A session that ends while the state lock is busy for a long time (many OPER attempts, each of
// which verifies an Argon2 hash under the write lock, queue ahead of it) is still cleaned up:
// once the load is over nobody finds the departed user any more.
fn check_teardown_under_load(c: &CounterCase, st: &mut Stats) -> Result<(), Viol> {
    let mut s = S::new(&c.seeds);
    s.raw();
    let workers = [2usize, 4, 8][s.pick(3)];
    let mut cfg = CfgSpec::default();
    cfg.opers.push(OperSpec { name: "op0".into(), password: "operpw0".into(), mask: None });
    let mut w = MtWorld::new(cfg.to_main_config(), workers);
    // the lock queue is FIFO and every connection has one command in flight: to keep the lock
    // busy for seconds ahead of the teardown it takes many connections
    let nconn = 40 + s.pick(40);
    for i in 0..nconn {
        let cc = w.connect();
        if !mt_line_barrier(&mut w, cc, &format!("NICK n{}\r\nUSER u{} 0 * :Real n{}", i, i, i), &format!("reg{}", i)) {
            st.count("inconclusive_realtime_wait");
            return Ok(());
        }
    }
    if !mt_line_barrier(&mut w, 0, "JOIN #load", "j0") || !mt_line_barrier(&mut w, 1, "JOIN #load", "j1") {
        st.count("inconclusive_realtime_wait");
        return Ok(());
    }
    let per = 2 + s.pick(2);
    let mut blob = String::new();
    for _ in 0..per {
        blob += "OPER op0 not-the-password\r\n";
    }
    let t0 = std::time::Instant::now();
    for cc in 1..nconn {
        w.send_bytes(cc, blob.as_bytes());
    }
    let how = ["QUIT :leaving under load", "drop"][s.pick(2)];
    if how == "drop" {
        w.conns[0].io = None;
    } else {
        w.send_bytes(0, format!("{}\r\n", how).as_bytes());
    }
    // everybody finishes its OPER attempts (long patience: this is real time)
    for cc in 1..nconn {
        w.send_bytes(cc, format!("PING load{}\r\n", cc).as_bytes());
    }
    for cc in 1..nconn {
        let tok = format!(":load{}", cc);
        if !w.read_until(cc, Duration::from_secs(60), &move |ls: &[String]| ls.iter().any(|l| l.contains(" PONG ") && l.ends_with(&tok))) {
            st.count("inconclusive_realtime_wait");
            return Ok(());
        }
    }
    let busy_ms = t0.elapsed().as_millis();
    // give the departed connection's task time to finish, then ask
    std::thread::sleep(Duration::from_millis(300));
    let start = w.conns[1].lines.len();
    if !mt_line_barrier(&mut w, 1, "ISON n0 n1 n2 n3\r\nNAMES #load", "after") {
        st.count("inconclusive_realtime_wait");
        return Ok(());
    }
    let lines: Vec<String> = w.conns[1].lines[start..].to_vec();
    let ison = lines.iter().find(|l| l.contains(" 303 ")).cloned().unwrap_or_default();
    let names = lines.iter().find(|l| l.contains(" 353 ")).cloned().unwrap_or_default();
    st.nontrivial(format!("{}|w{}|{}|{}", how.split(' ').next().unwrap_or(""), workers, per / 6, (busy_ms / 500).min(6)), || json!({"oper_attempts_per_connection": per, "connections": nconn - 1, "lock_busy_ms": busy_ms as u64, "end": how}));
    let listed = |l: &str, n: &str| l.rsplit(':').next().unwrap_or("").split(' ').any(|x| x.trim_start_matches(|c| "~&@%+".contains(c)) == n);
    if listed(&ison, "n0") || listed(&names, "n0") {
        return Err(Viol::new(
            "C18.session_end_under_load",
            format!("ghost-under-load:{}", how.split(' ').next().unwrap_or("")),
            format!("n0 ended its session ({}) while {} OPER attempts kept the state lock busy for {} ms; afterwards it is still listed: `{}` / `{}`", how, per * (nconn - 1), busy_ms, ison, names),
        ));
    }
    Ok(())
}

// flush every registered connection's queue: a self-addressed PRIVMSG travels through the
// connection's own FIFO queue, so once it is read everything queued before has been read
fn mt_flush_queues(w: &mut MtWorld, nick: &mut Vec<Option<String>>, mark: &[usize], tagbase: &str, artefacts: &mut Vec<(usize, String)>) -> bool {
    for c in 0..w.conns.len() {
        if w.conns[c].eof {
            continue;
        }
        for attempt in 0..4 {
            for l in w.conns[c].lines[mark[c].min(w.conns[c].lines.len())..].to_vec() {
                if let Ok(m) = refparse::parse(&l) {
                    if m.command == "001" {
                        nick[c] = m.params.get(0).cloned();
                    } else if m.command == "NICK" {
                        if let (Some(src), Some(cur)) = (m.source.as_ref(), nick[c].as_ref()) {
                            if src.split('!').next() == Some(cur.as_str()) {
                                nick[c] = m.params.get(0).cloned();
                            }
                        }
                    }
                }
            }
            let Some(n) = nick[c].clone() else { break };
            let tag = format!("__barrier{}{}_{}", tagbase, c, attempt);
            let before = w.conns[c].lines.len();
            w.send_bytes(c, format!("PRIVMSG {} :{}\r\n", n, tag).as_bytes());
            let t2 = tag.clone();
            let ok = w.read_until(c, WAIT, &move |ls: &[String]| ls[before.min(ls.len())..].iter().any(|l| l.ends_with(&t2) || l.contains(" 401 ") || l.contains(" 451 ")));
            if !ok {
                if w.conns[c].eof {
                    break;
                }
                return false;
            }
            if w.conns[c].lines[before..].iter().any(|l| l.ends_with(&tag) || l.contains(" 451 ")) {
                break;
            }
            // the 401 answer to a barrier sent under a stale nick is an artefact of the barrier
            artefacts.push((c, n));
        }
    }
    true
}

fn execute_mt(p: &Plan, workers: usize) -> Result<Option<RunInfo>, Viol> {
    let mut w = MtWorld::new(p.cfg.to_main_config(), workers);
    crate::sim::MT_PANICS.lock().unwrap().clear();
    let mut log: Vec<String> = vec![];
    for _ in 0..p.nconns {
        w.connect();
    }
    // nick each connection believes to own (for the queue barrier)
    let mut nick: Vec<Option<String>> = vec![None; p.nconns];
    for (k, (c, l)) in p.prefix.iter().enumerate() {
        if !mt_line_barrier(&mut w, *c, l, &format!("pre{}", k)) {
            return Ok(None);
        }
        if let Some(n) = l.strip_prefix("NICK ") {
            nick[*c] = Some(n.to_string());
        }
    }
    // flush the queues (relays caused by the prefix), then forget everything received so far
    let zero: Vec<usize> = vec![0; p.nconns];
    let mut artefacts: Vec<(usize, String)> = vec![];
    if !mt_flush_queues(&mut w, &mut nick, &zero, "p", &mut artefacts) {
        return Ok(None);
    }
    let mark: Vec<usize> = (0..p.nconns).map(|c| w.conns[c].lines.len()).collect();
    // the burst: every connection's lines in one write, all written back to back
    let mut blobs: std::collections::BTreeMap<usize, String> = Default::default();
    for (c, l) in &p.burst {
        let b = blobs.entry(*c).or_default();
        b.push_str(l);
        b.push_str("\r\n");
        log.push(format!("c{} > {}", c, l));
    }
    let order: Vec<usize> = {
        let mut v = vec![];
        for (c, _) in &p.burst {
            if !v.contains(c) {
                v.push(*c);
            }
        }
        v
    };
    for c in &order {
        let blob = format!("{}PING end{}\r\n", blobs[c], c);
        w.send_bytes(*c, blob.as_bytes());
    }
    // phase 1: every bursting connection has seen the reply to its final PING
    for c in &order {
        let m = mark[*c];
        let tok = format!(":end{}", c);
        let ok = w.read_until(*c, WAIT, &move |ls: &[String]| ls[m.min(ls.len())..].iter().any(|l| (l.contains(" PONG ") && l.ends_with(&tok)) || l.contains(" 451 ")));
        if !ok && !w.conns[*c].eof {
            // slow or stalled?  If the runtime is completely idle the answer can never come
            // (idle twice, a further patient wait without the answer, and idle again)
            let tok2 = format!(":end{}", c);
            if w.quiescent()
                && w.quiescent()
                && !w.read_until(*c, Duration::from_secs(8), &move |ls: &[String]| ls[m.min(ls.len())..].iter().any(|l| (l.contains(" PONG ") && l.ends_with(&tok2)) || l.contains(" 451 ")))
                && !w.conns[*c].eof
                && w.quiescent()
            {
                log.push(format!("c{} never got the answer to its final PING and the server runtime is idle (all workers parked)", c));
                return Err(Viol::new(
                    "C18.liveness",
                    format!("stalled:mt:{}", p.kind),
                    format!("after the parallel burst `{}` the server stopped answering c{} although it is idle: a deadlock", p.burst.iter().map(|(c, l)| format!("c{}:{}", c, l)).collect::<Vec<_>>().join(" | "), c),
                )
                .with_transcript(log.clone()));
            }
            return Ok(None);
        }
    }
    // phase 2: flush every registered connection's queue with a self-addressed message
    artefacts.clear();
    if !mt_flush_queues(&mut w, &mut nick, &mark, "b", &mut artefacts) {
        return Ok(None);
    }
    // a connection the server has told it is closing (ERROR after QUIT, KILL, a fatal error) is
    // part of the outcome as "closed": wait until the close has really happened
    for c in 0..p.nconns {
        let closing = w.conns[c].lines[mark[c].min(w.conns[c].lines.len())..].iter().any(|l| l.starts_with(&format!(":{} ERROR", SERVER_NAME)));
        if closing && !w.conns[c].eof {
            w.read_until(c, WAIT, &|_ls: &[String]| false);
            if !w.conns[c].eof {
                return Ok(None);
            }
        }
    }
    let mut raw: BTreeMap<usize, Vec<String>> = BTreeMap::new();
    for c in 0..p.nconns {
        let ls: Vec<String> = w.conns[c].lines[mark[c]..]
            .iter()
            .filter(|l| !(l.contains("__barrier") || (l.contains(" PONG ") && l.contains(":end")) || (l.contains(" 401 ") && false)))
            .cloned()
            .collect();
        // the 451 answer to the final PING of an unregistered connection and 401 answers to
        // barrier retries are artefacts of the barrier
        let mut ls2 = vec![];
        let mut dropped_451 = false;
        for l in ls.into_iter().rev() {
            if !dropped_451 && l.contains(" 451 ") && order.contains(&c) {
                dropped_451 = true;
                continue;
            }
            ls2.push(l);
        }
        ls2.reverse();
        for (ac, an) in &artefacts {
            if *ac == c {
                if let Some(pos) = ls2.iter().rposition(|l| l.contains(" 401 ") && l.contains(&format!(" {} :", an))) {
                    ls2.remove(pos);
                }
            }
        }
        // a connection that is AWAY answers its own barrier message with 301 <own nick>
        ls2.retain(|l| {
            let mut t = l.split(' ');
            !(t.nth(1) == Some("301") && t.nth(1).map_or(false, |n| n == format!("n{}", c) || n == format!("n{}b", c)))
        });
        for l in &ls2 {
            log.push(format!("c{} < {}", c, l));
        }
        raw.insert(c, ls2);
    }
    {
        let pans = crate::sim::MT_PANICS.lock().unwrap();
        if let Some(pn) = pans.iter().find(|p| p.loc.contains("/src/state/") && !p.loc.contains("structs.rs")) {
            return Err(Viol::new("C18.handler_abort", format!("panic:mt:{}", p.kind), format!("a handler aborted during the parallel burst: {} at {}", pn.msg, pn.loc)).with_transcript(log.clone()));
        }
    }
    let mut replies: BTreeMap<usize, Vec<String>> = BTreeMap::new();
    let mut relays: BTreeMap<(String, usize), Vec<String>> = BTreeMap::new();
    let server_prefix = format!(":{} ", SERVER_NAME);
    for (c, ls) in &raw {
        for l in ls {
            let Some(n) = light(l) else { continue };
            if l.starts_with(&server_prefix) {
                replies.entry(*c).or_default().push(n);
            } else {
                let src = stream_key(l, *c);
                relays.entry((src, *c)).or_default().push(n);
            }
        }
    }
    let mut eof = BTreeSet::new();
    for c in 0..p.nconns {
        if w.conns[c].eof {
            eof.insert(c);
        }
    }
    // digest with a barrier per query
    let mut digest = BTreeMap::new();
    for c in 0..p.nconns {
        if eof.contains(&c) {
            continue;
        }
        let from = w.conns[c].lines.len();
        let mut k = 0;
        let mut qs: Vec<String> = DIGEST_QUERIES.iter().map(|s| s.to_string()).collect();
        for extra in ["#new", "#lim", "#m", "#k", "#q", "#e", "#v", "#w", "#a1", "#a4", "#r", "#r2"] {
            qs.push(format!("MODE {}", extra));
            qs.push(format!("TOPIC {}", extra));
        }
        for q in qs {
            k += 1;
            if !mt_line_barrier(&mut w, c, &q, &format!("dg{}", k)) {
                return Ok(None);
            }
        }
        // remove the barrier answers: PONG dgN, and for unregistered connections one 451 per PING
        let registered = nick[c].is_some() && !w.conns[c].lines[from..].iter().all(|l| l.contains(" 451 "));
        let mut all: Vec<String> = vec![];
        let mut skip_451 = 0usize;
        for l in &w.conns[c].lines[from..] {
            if l.contains(" PONG ") && l.contains(":dg") {
                continue;
            }
            if !registered && l.contains(" 451 ") {
                // two 451 per query (the query and its PING): keep the first of each pair
                skip_451 += 1;
                if skip_451 % 2 == 0 {
                    continue;
                }
            }
            all.push(l.clone());
        }
        let mut items = norm::normalise(SERVER_NAME, &all).items;
        items.sort();
        if !items.iter().all(|i| i[1] == "451") {
            digest.insert(c, items);
        }
    }
    Ok(Some(RunInfo { outcome: canon_outcome(Outcome { replies, relays, digest, eof }), log, yields_taken: 0, raw }))
}

pub fn check_burst_mt(c: &BurstCase, st: &mut Stats) -> Result<(), Viol> {
    let p = plan(&c.seeds);
    if p.kind == "kill-vs-activity" {
        st.count("excluded_known_finding_F11");
        return Ok(());
    }
    let seed = c.seeds.get(1).copied().unwrap_or(0) as u64;
    let workers = 2 + (seed as usize % 7);
    let Some(conc) = execute_mt(&p, workers)? else {
        st.count("inconclusive_realtime_wait");
        return Ok(());
    };
    st.count(&format!("kind.{}", p.kind));
    let mut per_conn: BTreeMap<usize, Vec<String>> = BTreeMap::new();
    for (cc, l) in &p.burst {
        per_conn.entry(*cc).or_default().push(l.clone());
    }
    const CAP: usize = 150;
    let perms = interleavings(&per_conn, CAP);
    let capped = perms.len() >= CAP;
    let mut tried = 0;
    let mut matched = false;
    let mut matched_but_welcome_counters = false;
    let conc_blank = blank_welcome_lusers(&conc.outcome);
    let mut first_diff: Vec<String> = vec![];
    for perm in &perms {
        tried += 1;
        let seq = execute(&p, perm, false, seed)?;
        if seq.outcome == conc.outcome {
            matched = true;
            break;
        }
        if blank_welcome_lusers(&seq.outcome) == conc_blank {
            matched_but_welcome_counters = true;
        }
        if std::env::var("VERIF_DEBUG_C18").is_ok() {
            eprintln!("order {:?}: replies_eq={} relays_eq={} digest_eq={} eof_eq={}", perm.iter().map(|x| x.0).collect::<Vec<_>>(), seq.outcome.replies == conc.outcome.replies, seq.outcome.relays == conc.outcome.relays, seq.outcome.digest == conc.outcome.digest, seq.outcome.eof == conc.outcome.eof);
            for (k, v) in &conc.outcome.digest {
                if seq.outcome.digest.get(k) != Some(v) {
                    let a: BTreeSet<String> = v.iter().map(norm::show).collect();
                    let b: BTreeSet<String> = seq.outcome.digest.get(k).map(|x| x.iter().map(norm::show).collect()).unwrap_or_default();
                    eprintln!("   digest c{}: len {} vs {}; only parallel {:?} / only sequential {:?}", k, v.len(), seq.outcome.digest.get(k).map_or(0, |x| x.len()), a.difference(&b).collect::<Vec<_>>(), b.difference(&a).collect::<Vec<_>>());
                }
            }
        }
        if first_diff.is_empty() {
            for (k, v) in &conc.outcome.replies {
                if seq.outcome.replies.get(k) != Some(v) {
                    first_diff.push(format!("replies of c{}: parallel {:?} / sequential {:?}", k, v, seq.outcome.replies.get(k)));
                }
            }
            for (k, v) in &conc.outcome.relays {
                if seq.outcome.relays.get(k) != Some(v) {
                    first_diff.push(format!("relays {:?}: parallel {:?} / sequential {:?}", k, v, seq.outcome.relays.get(k)));
                }
            }
            for (k, v) in &seq.outcome.relays {
                if !conc.outcome.relays.contains_key(k) {
                    first_diff.push(format!("relays {:?}: parallel None / sequential {:?}", k, v));
                }
            }
            for (k, v) in &conc.outcome.digest {
                if seq.outcome.digest.get(k) != Some(v) {
                    let a: BTreeSet<String> = v.iter().map(norm::show).collect();
                    let b: BTreeSet<String> = seq.outcome.digest.get(k).map(|x| x.iter().map(norm::show).collect()).unwrap_or_default();
                    first_diff.push(format!("final state seen by c{}: only parallel {:?} / only sequential {:?}", k, a.difference(&b).collect::<Vec<_>>(), b.difference(&a).collect::<Vec<_>>()));
                }
            }
            if conc.outcome.eof != seq.outcome.eof {
                first_diff.push(format!("closed connections: parallel {:?} / sequential {:?}", conc.outcome.eof, seq.outcome.eof));
            }
        }
    }
    st.add("sequential_replays", tried as u64);
    st.nontrivial(format!("{}|w{}|{:?}", p.kind, workers, p.burst.iter().map(|b| b.0).collect::<Vec<_>>()), || {
        json!({"kind": p.kind, "workers": workers, "burst": p.burst.iter().map(|(c, l)| format!("c{}: {}", c, l)).collect::<Vec<_>>(), "sequential_orders_tried": tried})
    });
    if !matched {
        if capped {
            st.count("inconclusive_interleaving_cap");
            return Ok(());
        }
        let mut t = conc.log.clone();
        t.push(format!("-- no sequential order of the {} burst commands ({} tried, replayed on the SIM engine) reproduces the parallel outcome; differences to the first order:", p.burst.len(), tried));
        t.extend(first_diff.into_iter().take(14));
        if matched_but_welcome_counters {
            t.push("-- apart from the numbers in the LUSERS block of a welcome burst the outcome equals a sequential execution (known finding F12)".to_string());
            return Err(Viol::new(
                "C18.linearizable",
                "not-linearizable:welcome-lusers-snapshot".to_string(),
                format!("parallel burst `{}` ({}): a welcome burst reports user counts that no sequential order gives", p.burst.iter().map(|(c, l)| format!("c{}:{}", c, l)).collect::<Vec<_>>().join(" | "), p.kind),
            )
            .with_transcript(t));
        }
        return Err(Viol::new(
            "C18.linearizable",
            format!("not-linearizable:mt:{}", p.kind),
            format!("parallel burst `{}` ({}, {} worker threads): outcome matches no sequential execution", p.burst.iter().map(|(c, l)| format!("c{}:{}", c, l)).collect::<Vec<_>>().join(" | "), p.kind, workers),
        )
        .with_transcript(t));
    }
    crate::sim::set_in_sim(false);
    Ok(())
}
