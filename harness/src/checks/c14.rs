// C14 - mask matching is exact glob semantics and always terminates with an answer.
// Part (a): pure differential of `match_wildcard` / `normalize_sourcemask` against the
// reference glob (refglob) on mutation-derived, random and small-scope exhaustive pairs.
// Part (b): agreement on the wire lives in checks/wire14.rs (SIM engine).

use proptest::prelude::*;
use serde_derive::{Deserialize, Serialize};
use serde_json::{json, Value};
use std::panic::{catch_unwind, AssertUnwindSafe};

use crate::refglob;
use crate::runner::*;
use crate::sim;

#[derive(Clone, Debug, Serialize, Deserialize)]
pub struct GlobCase {
    pub mask: String,
    pub text: String,
}

const TEXT_ALPHA: &[char] = &[
    'a', 'b', 'c', 'A', 'n', '0', '1', '.', '!', '@', '~', '-', 'é', 'ß', '日', '*', '?', ':', ' ',
];

fn text_strategy(max: usize) -> impl Strategy<Value = String> {
    prop::collection::vec(0usize..(TEXT_ALPHA.len() + 8), 0..=max).prop_map(|v| {
        v.into_iter()
            // the first letters are over-represented (repeated characters make near misses)
            .map(|i| if i < TEXT_ALPHA.len() { TEXT_ALPHA[i] } else { TEXT_ALPHA[i % 3] })
            .collect()
    })
}

fn derive_mask(text: &str, edits: &[(u8, u16, u16)]) -> String {
    let mut m: Vec<char> = text.chars().collect();
    for &(op, pos, len) in edits {
        let n = m.len();
        let p = if n == 0 { 0 } else { (pos as usize * (n + 1)) >> 16 };
        let l = 1 + (len as usize % 4);
        match op % 9 {
            0 => {
                // replace a run by '*'
                let e = (p + l).min(n);
                if p < e {
                    m.splice(p..e, std::iter::once('*'));
                } else {
                    m.insert(p.min(n), '*');
                }
            }
            1 => {
                if p < n {
                    m[p] = '?';
                }
            }
            2 => m.insert(p.min(n), '*'),
            3 => {
                // lengthen a literal run beyond what the text offers
                for k in 0..l {
                    m.insert(p.min(m.len()), TEXT_ALPHA[(len as usize + k) % 6]);
                }
            }
            4 => {
                if p < n {
                    m.remove(p);
                }
            }
            5 => {
                if len % 2 == 0 {
                    m.push('*')
                } else {
                    m.insert(0, '*')
                }
            }
            6 => m.insert(p.min(n), '?'),
            7 => {
                if p < n {
                    m[p] = TEXT_ALPHA[len as usize % TEXT_ALPHA.len()];
                }
            }
            _ => {
                // '*' followed by a literal tail longer than the remaining text
                m.truncate(p.min(n));
                m.push('*');
                for k in 0..(l + 2) {
                    m.push(TEXT_ALPHA[(len as usize + k) % 4]);
                }
            }
        }
    }
    m.into_iter().collect()
}

fn mutated_pair() -> impl Strategy<Value = GlobCase> {
    (
        text_strategy(14),
        prop::collection::vec((0u8..9, any::<u16>(), any::<u16>()), 0..5),
    )
        .prop_map(|(text, edits)| GlobCase {
            mask: derive_mask(&text, &edits),
            text,
        })
}

fn random_pair() -> impl Strategy<Value = GlobCase> {
    let alpha: Vec<char> = vec!['a', 'b', '*', '?', 'é', '!', '@', '*', '?', 'a'];
    let a2 = alpha.clone();
    (
        prop::collection::vec(0usize..alpha.len(), 0..10),
        prop::collection::vec(0usize..alpha.len(), 0..12),
    )
        .prop_map(move |(m, t)| GlobCase {
            mask: m.into_iter().map(|i| a2[i]).collect(),
            text: t
                .into_iter()
                .map(|i| match a2[i] {
                    '*' => 'a',
                    '?' => 'b',
                    c => c,
                })
                .collect(),
        })
}

fn skeleton(mask: &str) -> String {
    let mut s = String::new();
    for c in mask.chars() {
        let k = match c {
            '*' => '*',
            '?' => '?',
            _ => 'L',
        };
        if k == 'L' && s.ends_with('L') {
            continue;
        }
        s.push(k);
    }
    s
}

pub fn check_pair(c: &GlobCase, st: &mut Stats) -> Result<(), Viol> {
    let expect = refglob::glob(&c.mask, &c.text);
    sim::set_in_sim(true);
    let got = catch_unwind(AssertUnwindSafe(|| crate::match_wildcard(&c.mask, &c.text)));
    sim::set_in_sim(false);
    let panics = sim::take_panics();
    let multibyte = !c.mask.is_ascii() || !c.text.is_ascii();
    let has_wild = c.mask.contains('*') || c.mask.contains('?');
    let has_lit = c.mask.chars().any(|x| x != '*' && x != '?');
    st.count(if expect { "ref_match" } else { "ref_nomatch" });
    if multibyte {
        st.count("multibyte");
    }
    // near the decision boundary: a one-edit neighbour of the text answers differently
    let near = {
        let t: Vec<char> = c.text.chars().collect();
        let mut n = false;
        if !t.is_empty() {
            let shorter: String = t[..t.len() - 1].iter().collect();
            n = n || refglob::glob(&c.mask, &shorter) != expect;
            let mut ch = t.clone();
            ch[0] = if ch[0] == 'x' { 'y' } else { 'x' };
            n = n || refglob::glob(&c.mask, &ch.iter().collect::<String>()) != expect;
        }
        let longer = format!("{}x", c.text);
        n || refglob::glob(&c.mask, &longer) != expect
    };
    if (has_wild && has_lit && near) || (multibyte && has_wild) {
        let tl = c.text.chars().count().min(6);
        st.nontrivial(
            format!("{}|{}|{}|{}", skeleton(&c.mask), tl, expect, multibyte),
            || json!({"mask": c.mask, "text": c.text, "reference": expect}),
        );
    }
    match got {
        Ok(g) if g == expect => Ok(()),
        Ok(g) => Err(Viol::new(
            "C14.glob_semantics",
            format!("wrong-answer:{}:{}", skeleton(&c.mask), if multibyte { "mb" } else { "ascii" }),
            format!(
                "match_wildcard({:?}, {:?}) = {} but glob semantics give {}",
                c.mask, c.text, g, expect
            ),
        )),
        Err(_) => {
            let p = panics.first().cloned();
            Err(Viol::new(
                "C14.totality",
                format!("panic:{}", if multibyte { "mb" } else { "ascii" }),
                format!(
                    "match_wildcard({:?}, {:?}) aborted ({}) instead of answering {}",
                    c.mask,
                    c.text,
                    p.map(|p| format!("{} at {}", p.msg, p.loc)).unwrap_or_default(),
                    expect
                ),
            ))
        }
    }
}

#[derive(Clone, Debug, Serialize, Deserialize)]
pub struct NormCase {
    pub mask: String,
}

pub fn check_norm(c: &NormCase, st: &mut Stats) -> Result<(), Viol> {
    let expect = refglob::normalise(&c.mask);
    sim::set_in_sim(true);
    let got = catch_unwind(AssertUnwindSafe(|| crate::normalize_sourcemask(&c.mask)));
    sim::set_in_sim(false);
    let _ = sim::take_panics();
    let bangs = c.mask.matches('!').count().min(2);
    let ats = c.mask.matches('@').count().min(2);
    let order = match (c.mask.find('!'), c.mask.find('@')) {
        (Some(a), Some(b)) => {
            if a < b {
                "!@"
            } else {
                "@!"
            }
        }
        _ => "-",
    };
    if bangs + ats > 0 {
        st.nontrivial(format!("{}|{}|{}|{}", bangs, ats, order, c.mask.chars().count().min(5)), || {
            json!({"mask": c.mask, "normalised": expect})
        });
    }
    match got {
        Ok(g) if g == expect => Ok(()),
        Ok(g) => Err(Viol::new(
            "C14.normalise",
            format!("normalise:{}{}{}", bangs, ats, order),
            format!("normalize_sourcemask({:?}) = {:?}, expected {:?}", c.mask, g, expect),
        )),
        Err(_) => Err(Viol::new(
            "C14.normalise_totality",
            "normalise-panic",
            format!("normalize_sourcemask({:?}) aborted", c.mask),
        )),
    }
}

const EX_ALPHA: &[char] = &['a', 'b', '*', '?', 'é'];

fn nth_string(alpha: &[char], mut idx: u64, max_len: u32) -> String {
    // enumerate strings of length 0..=max_len in length-lexicographic order
    let k = alpha.len() as u64;
    let mut len = 0u32;
    let mut block = 1u64;
    while len <= max_len {
        if idx < block {
            break;
        }
        idx -= block;
        block *= k;
        len += 1;
    }
    let mut v = vec![alpha[0]; len as usize];
    for i in (0..len as usize).rev() {
        v[i] = alpha[(idx % k) as usize];
        idx /= k;
    }
    v.into_iter().collect()
}

fn count_strings(k: u64, max_len: u32) -> u64 {
    (0..=max_len).map(|l| k.pow(l)).sum()
}

pub fn run(ctx: &RunCtx) -> Vec<PartOutcome> {
    let mut parts = vec![];
    let n = ctx.tier.pick(300_000, 6_000_000);
    parts.push(explore(ctx, "glob_mutated", n * 2 / 3, mutated_pair, check_pair));
    parts.push(explore(ctx, "glob_random", n / 3, random_pair, check_pair));
    let l = ctx.tier.pick(4u32, 5u32);
    let cnt = count_strings(EX_ALPHA.len() as u64, l);
    parts.push(enumerate(
        ctx,
        "glob_exhaustive",
        cnt * cnt,
        |i| GlobCase {
            mask: nth_string(EX_ALPHA, i / cnt, l),
            text: nth_string(EX_ALPHA, i % cnt, l),
        },
        check_pair,
    ));
    let nalpha: &[char] = &['a', '!', '@', '*', 'é'];
    let nl = ctx.tier.pick(6u32, 8u32);
    parts.push(enumerate(
        ctx,
        "normalise_exhaustive",
        count_strings(nalpha.len() as u64, nl),
        |i| NormCase {
            mask: nth_string(nalpha, i, nl),
        },
        check_norm,
    ));
    if ctx.tier == Tier::Thorough {
        parts.push(crate::fuzzdec::libfuzzer_part(ctx, "glob", 3_000_000, 200));
    }
    parts
}

pub fn replay(part: &str, input: &Value) -> Option<Result<Result<(), Viol>, String>> {
    match part {
        "glob_mutated" | "glob_random" | "glob_exhaustive" => Some(replay_input::<GlobCase>(input, check_pair)),
        "normalise_exhaustive" => Some(replay_input::<NormCase>(input, check_norm)),
        "libfuzzer_glob" => Some(crate::fuzzdec::replay_bytes_case(input)),
        _ => None,
    }
}
