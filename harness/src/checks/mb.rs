// Generic model-based SIM check: generated history -> every step judged against the reference
// model with per-property predicate ownership -> read-only probe battery.

use serde_json::json;
use std::collections::{BTreeMap, BTreeSet};

use crate::cfgspec::CfgSpec;
use crate::engine::{Disc, Engine, StepOut};
use crate::gen::{Op, Profile};
use crate::runner::{Stats, Viol};
use crate::scenario::*;

pub struct Built {
    pub cfg: CfgSpec,
    pub prof: Profile,
    pub prelude_users: usize,
    // scripted set-up lines run (and judged) after the prelude: (nick, line)
    pub setup: Vec<(String, String)>,
}

#[derive(Default)]
pub struct Trace {
    pub tags: Vec<String>,
    pub lines: Vec<String>,
    pub steps: usize,
    // connections whose user changed nick during the case, and the nicks involved
    pub renamed_conns: BTreeSet<usize>,
    pub renamed_nicks: BTreeSet<String>,
}

impl Trace {
    pub fn count_prefix(&self, p: &str) -> usize {
        self.tags.iter().filter(|t| t.starts_with(p)).count()
    }
    pub fn has(&self, p: &str) -> bool {
        self.tags.iter().any(|t| t.starts_with(p))
    }
}

pub struct MbSpec {
    pub id: &'static str,
    pub ncfg: usize,
    pub max_ops: usize,
    pub build: fn(&[u16]) -> Built,
    pub owns: fn(&Disc, &StepOut, &Trace) -> bool,
    // probes after each op: 0 = none, 1 = actor + one rotating viewer, 2 = everybody
    pub probe_level: u8,
    pub nontrivial: fn(&Trace) -> Option<String>,
    // optional extra predicate evaluated after every op (own oracle beyond the diff)
    pub extra: Option<fn(&mut Engine, &mut ExtraState, &[StepOut]) -> Result<(), Viol>>,
}

#[derive(Default)]
pub struct ExtraState {
    pub recon: BTreeMap<(usize, String), BTreeSet<String>>,
    pub left_by_disconnect: BTreeSet<String>,
    pub counters: BTreeMap<String, u64>,
    // pending invitations (nick, channel) after the previous operation
    pub invited: BTreeSet<(String, String)>,
}

fn handle(
    spec: &MbSpec,
    eng: &Engine,
    out: &StepOut,
    st: &mut Stats,
    trace: &mut Trace,
) -> Result<bool, Viol> {
    count_tags(st, out);
    trace.tags.extend(out.exp.tags.iter().cloned());
    trace.steps += 1;
    if out.exp.unknown {
        st.count("steps_unpredicted");
    }
    st.add("detached_task_panics", out.detached_panics as u64);
    if out.exp.has_tag("nick:changed") {
        if let Some(a) = out.actor {
            trace.renamed_conns.insert(a);
        }
        let body: &str = if out.sent.starts_with(':') { out.sent.splitn(2, ' ').nth(1).unwrap_or("").trim_start() } else { out.sent.as_str() };
        if let Some(n) = body.split(' ').nth(1) {
            trace.renamed_nicks.insert(n.to_string());
        }
    }
    let owns_fn = spec.owns;
    let tr: &Trace = trace;
    let owns_closure = move |d: &Disc, o: &StepOut| owns_fn(d, o, tr);
    let pol = Policy { id: spec.id, owns: &owns_closure };
    match judge(&pol, eng, out) {
        Verdict::Ok => Ok(true),
        Verdict::Violation(v) => Err(v),
        Verdict::Foreign(why) => {
            // An unexpected numeric that only the sender of the line gets, while everything the
            // model expected did arrive, is another property's business AND leaves the visible
            // state where the model has it (every state-changing command has an expected echo):
            // the case goes on, so that a later consequence this property owns is still seen.
            let only_extra_replies = out.actor.is_some()
                && out.discs.iter().all(|d| matches!(d, Disc::Extra { conn, line } if Some(*conn) == out.actor && line[0] == "S" && line[1] != "ERROR"));
            if only_extra_replies {
                st.count("foreign_extra_reply_tolerated");
                return Ok(true);
            }
            st.count("abandoned_foreign");
            if std::env::var("VERIF_DEBUG_FOREIGN").is_ok() {
                eprintln!("[{}] foreign: after `{}`: {}", spec.id, out.sent, why);
                for l in eng.tail(25) {
                    eprintln!("      {}", l);
                }
            }
            Ok(false)
        }
    }
}

pub fn run_case(spec: &MbSpec, case: &ScCase, st: &mut Stats) -> Result<(), Viol> {
    let b = (spec.build)(&case.cfg);
    let seed = case.cfg.get(0).copied().unwrap_or(0) as u64;
    let mut eng = Engine::new(&b.cfg, seed);
    let mut trace = Trace::default();
    let mut xs = ExtraState::default();
    let pool = b.prof.nicks.clone();
    let mut ctx = String::from("PRELUDE");
    let mut probing = false;
    // a discrepancy nobody owns abandons the case - but inside a (read-only) probe battery the
    // remaining probes are still asked first, so that an owned symptom of the same divergence
    // (e.g. LIST / LUSERS after a NAMES mismatch) is not missed.  The same holds for an operation
    // of the history itself: the battery that follows it is still asked (and judged for what this
    // property owns - the symptom is real whoever owns its cause), then the case ends.
    let mut foreign_pending = false;
    let mut in_history = false;
    macro_rules! step {
        ($out:expr) => {{
            let mut out = $out;
            out.ctx = ctx.clone();
            out.is_probe = probing;
            if !handle(spec, &eng, &out, st, &mut trace)? {
                if probing || (in_history && spec.probe_level > 0) {
                    if !probing {
                        st.count("foreign_then_probed");
                    }
                    foreign_pending = true;
                } else {
                    finish(spec, &trace, st, &b);
                    return Ok(());
                }
            }
            out
        }};
    }
    for i in 0..b.prelude_users {
        let nick = b.prof.nicks[i].clone();
        let user = format!("u{}", i);
        let (_, outs) = eng.register(&nick, &user);
        let mut kept = vec![];
        for o in outs {
            kept.push(step!(o));
        }
        if let Some(x) = spec.extra {
            x(&mut eng, &mut xs, &kept)?;
        }
    }
    ctx = "SETUP".into();
    for (nick, line) in &b.setup {
        if let Some(c) = eng.model.conn_of(nick) {
            let o = step!(eng.line(c, line));
            if let Some(x) = spec.extra {
                x(&mut eng, &mut xs, &[o])?;
            }
        }
    }
    let mut rot = 0usize;
    for seedv in &case.ops {
        let Some(op) = next_op(&eng, &b.prof, seedv) else {
            break;
        };
        let actor = match &op {
            Op::Multi(v) => {
                trace.lines.push(format!("contention script: {:?}", v));
                ctx = "REGLINE".into();
                None
            }
            Op::Connect => {
                trace.lines.push("new connection".to_string());
                ctx = "CONNECT".into();
                None
            }
            Op::Line(c, l) => {
                trace.lines.push(format!("c{}: {}", c, l));
                // (a client-supplied ':source' prefix is not the verb)
                let body: &str = if l.starts_with(':') { l.splitn(2, ' ').nth(1).unwrap_or("").trim_start() } else { l.as_str() };
                ctx = body.split(' ').next().unwrap_or("").to_ascii_uppercase();
                if !eng.model.is_registered(*c) {
                    ctx = "REGLINE".into();
                }
                if ctx == "MODE" {
                    let t = body.split(' ').nth(1).unwrap_or("");
                    ctx = if t.starts_with('#') || t.starts_with('&') { "MODE#".into() } else { "MODEu".into() };
                }
                Some(*c)
            }
            Op::NewUser { nick, .. } => {
                trace.lines.push(format!("new user {}", nick));
                ctx = "NEWUSER".into();
                None
            }
            Op::Close(c, k) => {
                ctx = if eng.model.is_registered(*c) { "CLOSE".into() } else { "CLOSEUNREG".into() };
                trace.lines.push(format!("c{} closes {:?}", c, k));
                if let Some(n) = eng.model.nick_of(*c) {
                    xs.left_by_disconnect.insert(n.to_string());
                }
                None
            }
        };
        if let Op::Line(c, l0) = &op {
            // (without a client-supplied ':source' prefix)
            let l: &str = if l0.starts_with(':') { l0.splitn(2, ' ').nth(1).unwrap_or("").trim_start() } else { l0.as_str() };
            if l == "QUIT" || l.starts_with("QUIT ") {
                if let Some(n) = eng.model.nick_of(*c) {
                    xs.left_by_disconnect.insert(n.to_string());
                }
            }
            if l.starts_with("KILL ") {
                if let Some(n) = l.split(' ').nth(1) {
                    xs.left_by_disconnect.insert(n.to_string());
                }
            }
        }
        let outs = apply_op(&mut eng, &op);
        let mut kept = vec![];
        in_history = true;
        for o in outs {
            kept.push(step!(o));
        }
        in_history = false;
        if let Some(x) = spec.extra {
            if !foreign_pending {
                x(&mut eng, &mut xs, &kept)?;
            }
        }
        if eng.model.died {
            if foreign_pending {
                finish(spec, &trace, st, &b);
                return Ok(());
            }
            break;
        }
        if spec.probe_level > 0 {
            let regs = crate::gen::registered_conns(&eng.model);
            let mut viewers: Vec<usize> = vec![];
            if spec.probe_level >= 2 {
                viewers = regs.clone();
            } else if !regs.is_empty() {
                if let Some(a) = actor {
                    if regs.contains(&a) {
                        viewers.push(a);
                    }
                }
                rot += 1;
                let r = regs[rot % regs.len()];
                if !viewers.contains(&r) {
                    viewers.push(r);
                }
            }
            probing = true;
            for v in viewers {
                for l in probe_lines(&eng, v, &pool) {
                    st.count("probe_lines");
                    step!(eng.line(v, &l));
                }
            }
            probing = false;
            if foreign_pending {
                finish(spec, &trace, st, &b);
                return Ok(());
            }
        }
    }
    // final full battery from every registered viewpoint
    ctx = "FINAL".into();
    probing = true;
    if !eng.model.died {
        for v in crate::gen::registered_conns(&eng.model) {
            for l in probe_lines(&eng, v, &pool) {
                st.count("probe_lines");
                step!(eng.line(v, &l));
            }
        }
    }
    for (k, v) in xs.counters {
        st.add(&k, v);
    }
    finish(spec, &trace, st, &b);
    Ok(())
}

fn finish(spec: &MbSpec, trace: &Trace, st: &mut Stats, _b: &Built) {
    st.add("steps", trace.steps as u64);
    if let Some(sig) = (spec.nontrivial)(trace) {
        st.nontrivial(sig, || json!({"script": trace.lines.iter().take(40).cloned().collect::<Vec<_>>()}));
    }
}
