// C13 parts on the SIM engine: (b) verb/arity table, (c) framing and chunking, (d) emission
// framing + relay round trip; and the C14 part (b): mask agreement on the wire.

use proptest::prelude::*;
use serde_derive::{Deserialize, Serialize};
use serde_json::{json, Value};

use crate::cfgspec::{CfgSpec, OperSpec, UserSpec};
use crate::checks::mb::*;
use crate::engine::{Disc, StepOut};
use crate::gen::{derive_mask, Profile, K, S};
use crate::refparse;
use crate::runner::*;
use crate::sim::World;

// (verb, minimum number of parameters, well-formed parameters in order)
pub const TABLE: &[(&str, usize, &[&str])] = &[
    ("CAP", 1, &["LS", "302"]),
    ("AUTHENTICATE", 0, &["PLAIN"]),
    ("PASS", 1, &["secret"]),
    ("NICK", 1, &["newnick"]),
    ("USER", 4, &["uu", "0", "*", "Real Name"]),
    ("PING", 1, &["tok"]),
    ("PONG", 1, &["tok"]),
    ("OPER", 2, &["op0", "operpw0"]),
    ("QUIT", 0, &["bye"]),
    ("JOIN", 1, &["#x", "key"]),
    ("PART", 1, &["#c0", "reason"]),
    ("TOPIC", 1, &["#c0", "new topic"]),
    ("NAMES", 0, &["#c0"]),
    ("LIST", 0, &["#c0", "irc.irc"]),
    ("INVITE", 2, &["n1", "#c0"]),
    ("KICK", 2, &["#c0", "n1", "why"]),
    ("MOTD", 0, &["irc.irc"]),
    ("VERSION", 0, &["irc.irc"]),
    ("ADMIN", 0, &["irc.irc"]),
    ("CONNECT", 1, &["a.b", "6667", "c.d"]),
    ("LUSERS", 0, &[]),
    ("TIME", 0, &["irc.irc"]),
    ("STATS", 1, &["u", "irc.irc"]),
    ("LINKS", 0, &["a.b", "*.b"]),
    ("HELP", 0, &["MAIN"]),
    ("INFO", 0, &[]),
    ("MODE", 1, &["#c0", "+t"]),
    ("PRIVMSG", 2, &["n1", "hi there"]),
    ("NOTICE", 2, &["n1", "hi there"]),
    ("WHO", 1, &["n1"]),
    ("WHOIS", 1, &["n1"]),
    ("WHOWAS", 1, &["n1", "1", "irc.irc"]),
    ("KILL", 2, &["n1", "bye"]),
    ("REHASH", 0, &[]),
    ("RESTART", 0, &[]),
    ("SQUIT", 2, &["irc.irc", "bye"]),
    ("AWAY", 0, &["gone"]),
    ("USERHOST", 1, &["n1", "n0", "n2"]),
    ("WALLOPS", 1, &["attention"]),
    ("ISON", 1, &["n1", "n0", "n2"]),
    ("DIE", 0, &["bye"]),
    // tokens that are not commands
    ("FOO", 0, &["a", "b"]),
    ("PRIVMSGS", 0, &["n1", "x"]),
    ("123", 0, &["x"]),
    // (letters whose Unicode upper case is ASCII: command names are ASCII only)
    ("\u{131}SON", 0, &["n1"]),
    ("QU\u{131}T", 0, &["bye"]),
    ("PA\u{df}", 0, &["x"]),
];
const UNKNOWN_ROWS: usize = 6;

#[derive(Clone, Debug, Serialize, Deserialize)]
pub struct VerbCase {
    pub verb: usize,
    pub arity: usize,
    pub variant: usize, // 0 plain, 1 mangled case, 2 extra blanks
}

fn scene(seed: u64) -> (World, usize) {
    let mut cfg = CfgSpec::default();
    cfg.opers.push(OperSpec { name: "op0".into(), password: "operpw0".into(), mask: None });
    let mut w = World::new(cfg.to_main_config(), seed);
    for i in 0..3 {
        let c = w.connect();
        w.send_line(c, &format!("NICK n{}", i));
        w.send_line(c, &format!("USER u{} 0 * :Real n{}", i, i));
        w.settle();
        w.send_line(c, "JOIN #c0");
        w.settle();
    }
    for c in 0..3 {
        w.drain(c);
    }
    (w, 0)
}

fn classify(lines: &[String]) -> (&'static str, String) {
    for l in lines {
        if let Ok(m) = refparse::parse(l) {
            if m.command == "421" {
                return ("unknown", l.clone());
            }
            if m.command == "461" {
                return ("missing", l.clone());
            }
        }
    }
    for l in lines {
        if let Ok(m) = refparse::parse(l) {
            if m.command.starts_with("ERROR") || ["472", "501", "696"].contains(&m.command.as_str()) {
                return ("invalid-parameter", l.clone());
            }
        }
    }
    ("executed", lines.first().cloned().unwrap_or_default())
}

pub fn check_verb(c: &VerbCase, st: &mut Stats) -> Result<(), Viol> {
    let (verb, min, params) = TABLE[c.verb % TABLE.len()];
    let known = c.verb % TABLE.len() < TABLE.len() - UNKNOWN_ROWS;
    let (mut w, me) = scene(c.verb as u64);
    let mut ps: Vec<String> = params.iter().take(c.arity).map(|s| s.to_string()).collect();
    while ps.len() < c.arity {
        ps.push(format!("extra{}", ps.len()));
    }
    let v = match c.variant {
        1 => verb.chars().enumerate().map(|(i, ch)| if i % 2 == 0 { ch.to_ascii_lowercase() } else { ch }).collect::<String>(),
        _ => verb.to_string(),
    };
    let sep = if c.variant == 2 { "   " } else { " " };
    let mut line = if c.variant == 2 { format!("  {}", v) } else { v };
    for (i, p) in ps.iter().enumerate() {
        line += sep;
        if i + 1 == ps.len() && (p.contains(' ') || i + 1 == params.len().max(1)) {
            line.push(':');
        }
        line += p;
    }
    w.send_line(me, &line);
    w.settle();
    let lines = w.drain(me);
    let (class, witness) = classify(&lines);
    for p in crate::sim::take_panics() {
        if p.task.is_some() {
            return Err(Viol::new("C13.executed_or_specific_error", format!("panic:{}", verb), format!("`{}` aborted the handler: {} at {}", line, p.msg, p.loc)));
        }
    }
    crate::sim::set_in_sim(false);
    st.count(&format!("class.{}", class));
    if c.variant > 0 || c.arity != min {
        st.nontrivial(format!("{}|{}|{}", verb, c.arity, c.variant), || json!({"line": line, "class": class}));
    }
    let verdict = if !known {
        if class == "unknown" { Ok(()) } else { Err(format!("an unknown command must be answered with 421, got {} ({:?})", class, witness)) }
    } else if c.arity < min {
        if verb == "WHO" {
            Ok(()) // WHO without a mask: not judged
        } else if class == "missing" {
            if witness.to_ascii_uppercase().contains(verb) { Ok(()) } else { Err(format!("461 does not name the command: {:?}", witness)) }
        } else {
            Err(format!("{} parameter(s) are fewer than the command needs ({}): expected 461, got {} ({:?})", c.arity, min, class, witness))
        }
    } else if verb == "AUTHENTICATE" {
        Ok(()) // documented as unsupported: answered with 421 by design, not judged
    } else if class == "unknown" || class == "missing" {
        Err(format!("a known command with enough parameters ({} >= {}) was answered with {:?}", c.arity, min, witness))
    } else {
        Ok(())
    };
    verdict.map_err(|e| Viol::new("C13.verb_arity_table", format!("table:{}:{}", verb, class), format!("`{}`: {}", line, e)))
}

// ------------------------------------------------------------------------------- framing
#[derive(Clone, Debug, Serialize, Deserialize)]
pub struct FrameCase {
    pub len: usize,
    pub crlf: bool,
    pub seeds: Vec<u16>,
}

pub fn check_frame(c: &FrameCase, st: &mut Stats) -> Result<(), Viol> {
    let (mut w, me) = scene(c.len as u64);
    // a PRIVMSG to the observer n1 padded to exactly `len` bytes (without the line terminator);
    // the tail of the padding is itself a plausible command
    let head = "PRIVMSG n1 :";
    let tail = " PRIVMSG n1 :tail-executed";
    let fill = c.len.saturating_sub(head.len() + tail.len());
    let body = format!("{}{}{}", head, "x".repeat(fill), tail);
    let mut bytes = body.clone().into_bytes();
    bytes.truncate(c.len.max(head.len() + 1));
    let sent_len = bytes.len();
    bytes.extend_from_slice(if c.crlf { b"\r\n" } else { b"\n" });
    bytes.extend_from_slice(b"PING after\r\n");
    w.send_bytes(me, &bytes);
    w.settle();
    let mine = w.drain(me);
    let obs = w.drain(1);
    let got_417 = mine.iter().filter(|l| l.contains(" 417 ")).count();
    let delivered = obs.iter().filter(|l| l.contains(" PRIVMSG n1 ")).count();
    crate::sim::set_in_sim(false);
    let _ = crate::sim::take_panics();
    st.count(if got_417 > 0 { "answered_417" } else { "processed" });
    st.nontrivial(format!("{}|{}", sent_len, c.crlf), || json!({"line_length": sent_len, "crlf": c.crlf, "417": got_417, "delivered_to_observer": delivered}));
    let fail = |sig: &str, msg: String| Viol::new("C13.framing", format!("framing:{}", sig), format!("line of {} bytes ({}): {}; sender got {:?}", sent_len, if c.crlf { "CRLF" } else { "LF" }, msg, mine));
    if got_417 > 0 {
        // LINELEN=2000 is advertised: a line of 1998 bytes plus CRLF is within the limit under
        // either reading (terminator counted or not), one of 2001 bytes is over it under both
        if sent_len <= 1998 {
            return Err(fail("short-rejected", "a line within the limit was answered with ERR_INPUTTOOLONG".into()));
        }
        if got_417 != 1 {
            return Err(fail("417-count", format!("{} ERR_INPUTTOOLONG replies", got_417)));
        }
        if delivered > 0 {
            return Err(fail("part-executed", format!("an over-long line was partly executed: the observer received {:?}", obs)));
        }
    } else {
        if sent_len >= 2001 {
            return Err(fail("long-accepted", "a line over the limit was not answered with ERR_INPUTTOOLONG".into()));
        }
        if delivered != 1 {
            return Err(fail("not-processed", format!("a line within the limit was not executed exactly once (observer got {} copies)", delivered)));
        }
        // the delivered text is the whole padding, nothing cut off
        let want_text = String::from_utf8_lossy(&body.as_bytes()[head.len()..sent_len.min(body.len())]).to_string();
        if !obs.iter().any(|l| l.ends_with(&want_text)) {
            return Err(fail("text-cut", "the delivered text differs from the text sent".into()));
        }
    }
    Ok(())
}

// ------------------------------------------------------------------- invalid parameters
// A syntactically fine line whose parameter is not acceptable is answered with the specific
// error and not executed (never silently read as something else).
pub const INVALID_PARAM_LINES: &[&str] = &[
    "STATS uptime", "STATS mu", "STATS uu", "STATS oper", "STATS :u m", "STATS :", "NICK a.b", "NICK a,b", "NICK #x",
    "JOIN nochanprefix", "JOIN #a:b", "JOIN #a,#b onekey", "JOIN #a k1,k2", "PART nochan", "TOPIC nochan :x", "KICK nochan n1", "INVITE n1 nochan", "PRIVMSG a.b :x", "NOTICE a:b :x",
];

#[derive(Clone, Debug, Serialize, Deserialize)]
pub struct InvalidCase {
    pub index: usize,
    pub variant: usize,
}

pub fn check_invalid_param(c: &InvalidCase, st: &mut Stats) -> Result<(), Viol> {
    let base = INVALID_PARAM_LINES[c.index % INVALID_PARAM_LINES.len()];
    let (mut w, me) = scene(c.index as u64);
    // the sender is an operator in variant 1 (STATS would be executed for it)
    if c.variant == 1 {
        w.send_line(me, "OPER op0 operpw0");
        w.settle();
        w.drain(me);
    }
    let line = if c.variant == 2 { base.to_lowercase() } else { base.to_string() };
    w.send_line(me, &line);
    w.send_line(me, "PING marker");
    w.settle();
    let lines = w.drain(me);
    let others: Vec<String> = (1..3).flat_map(|c| w.drain(c)).collect();
    let (class, witness) = classify(&lines);
    crate::sim::set_in_sim(false);
    for p in crate::sim::take_panics() {
        if p.task.is_some() {
            return Err(Viol::new("C13.executed_or_specific_error", format!("panic:{}", base), format!("`{}` aborted the handler: {} at {}", line, p.msg, p.loc)));
        }
    }
    st.nontrivial(format!("{}|{}", base, c.variant), || json!({"line": line, "class": class}));
    if class != "invalid-parameter" || !others.is_empty() || !lines.iter().any(|l| l.contains(" PONG ")) {
        return Err(Viol::new(
            "C13.executed_or_specific_error",
            format!("invalid-param:{}", base.split(' ').next().unwrap_or("")),
            format!("`{}` has an unacceptable parameter: expected the specific error and nothing else, got {} ({:?}); others saw {:?}", line, class, witness, others),
        ));
    }
    Ok(())
}

// ---------------------------------------------------------------------- valid parameters
// The converse: unusual but acceptable parameters (dotted channel names behind status prefixes,
// empty places in key lists, empty trailing texts, optional extra parameters) are not refused as
// invalid.
pub const VALID_PARAM_LINES: &[&str] = &[
    "NOTICE @#c0 :x", "PRIVMSG @#c0 :x", "NOTICE @#do.t :x", "PRIVMSG @#do.t :x", "NOTICE ~&+#do.t,n1 :x", "PRIVMSG %&l.0 :x", "NOTICE +&l.0 :x", "PRIVMSG n1,#do.t :x", "NOTICE #do.t,n1 :x",
    "JOIN #do.t", "JOIN &l.0", "JOIN #a,#b k1,", "JOIN #a,#b ,k2", "JOIN #a,#b k1,k2", "PART #c0 :", "KICK #c0 n1 :", "KICK #c0 n1,n2 :both", "TOPIC #c0 :", "INVITE n1 #do.t :extra",
    "WHO #do.t o", "WHO n? o", "MODE #c0 +b", "MODE #c0 +e", "MODE #c0 +I", "NICK [a]b`", "NICK a-b_c", "NAMES #do.t,#c0", "LIST #do.t", "WHOIS irc.irc n1", "USERHOST n1 n2",
    "AWAY :", "WHOWAS n1 5", "WHOWAS n1 5 irc.irc", "MOTD irc.irc", "TIME irc.irc", "VERSION irc.irc", "ADMIN irc.irc", "INFO irc.irc", "PING a b", "STATS u irc.irc",
];

pub fn check_valid_param(c: &InvalidCase, st: &mut Stats) -> Result<(), Viol> {
    let base = VALID_PARAM_LINES[c.index % VALID_PARAM_LINES.len()];
    let (mut w, me) = scene(c.index as u64);
    let line = if c.variant == 1 { base.splitn(2, ' ').enumerate().map(|(i, p)| if i == 0 { p.to_lowercase() } else { p.to_string() }).collect::<Vec<_>>().join(" ") } else { base.to_string() };
    w.send_line(me, &line);
    w.send_line(me, "PING marker");
    w.settle();
    let lines = w.drain(me);
    let (class, witness) = classify(&lines);
    crate::sim::set_in_sim(false);
    for p in crate::sim::take_panics() {
        if p.task.is_some() {
            return Err(Viol::new("C13.acceptable_parameters_accepted", format!("panic:{}", base), format!("`{}` aborted the handler: {} at {}", line, p.msg, p.loc)));
        }
    }
    st.nontrivial(format!("{}|{}", base, c.variant), || json!({"line": line, "class": class}));
    if class != "executed" || !lines.iter().any(|l| l.contains(" PONG ")) {
        return Err(Viol::new(
            "C13.acceptable_parameters_accepted",
            format!("valid-param:{}", base),
            format!("`{}` has acceptable parameters but was answered as {} ({:?})", line, class, witness),
        ));
    }
    Ok(())
}

// ------------------------------------------------------------------ unterminated last line
// A line is a line only when its terminator has arrived: what a client has sent of its last,
// unterminated line when the connection ends is never executed.
#[derive(Clone, Debug, Serialize, Deserialize)]
pub struct EofCase {
    pub seeds: Vec<u16>,
}

pub fn check_eof_fragment(c: &EofCase, st: &mut Stats) -> Result<(), Viol> {
    let mut s = S::new(&c.seeds);
    let (mut w, me) = scene(s.raw() as u64);
    let complete = s.pick(3);
    let mut bytes: Vec<u8> = vec![];
    for i in 0..complete {
        bytes.extend_from_slice(format!("PRIVMSG n1 :complete line {}\r\n", i).as_bytes());
    }
    let frag = [
        "PRIVMSG n1 :never terminated",
        "PRIVMSG n1 :never terminated\r",
        "NICK stolen",
        "JOIN #fragment",
        "PRIVMSG n1 :x",
        "QUIT :bye",
        "P",
        "PRIVMSG n1 :\u{e9}\u{65e5}",
    ][s.pick(8)];
    bytes.extend_from_slice(frag.as_bytes());
    // a multi-byte character cut in the middle is a fragment too
    let cut_mb = frag.ends_with('\u{65e5}') && s.chance(50);
    if cut_mb {
        bytes.pop();
    }
    w.send_bytes(me, &bytes);
    w.settle();
    let kind = if s.chance(50) { crate::sim::CloseKind::Drop } else { crate::sim::CloseKind::HalfClose };
    w.close(me, kind);
    w.settle();
    w.settle();
    let obs = w.drain(1);
    crate::sim::set_in_sim(false);
    let _ = crate::sim::take_panics();
    st.nontrivial(format!("{}|{}|{:?}|{}", complete, frag.split(' ').next().unwrap_or(""), kind, cut_mb), || json!({"complete_lines": complete, "fragment": frag, "close": format!("{:?}", kind)}));
    let delivered = obs.iter().filter(|l| l.contains(" PRIVMSG n1 :complete line")).count();
    let fail = |sig: &str, msg: String| Viol::new("C13.framing", format!("framing:{}", sig), format!("{} complete line(s), then the unterminated {:?}, then the connection ends ({:?}): {}; observer got {:?}", complete, frag, kind, msg, obs));
    if delivered != complete {
        return Err(fail("complete-lost", format!("{} of the {} complete lines were executed", delivered, complete)));
    }
    // nothing else may reach the observer: no message from the fragment, no NICK / JOIN of it
    let extra: Vec<&String> = obs.iter().filter(|l| !l.contains(" PRIVMSG n1 :complete line")).collect();
    if !extra.is_empty() {
        return Err(fail("fragment-executed", "the unterminated fragment was executed".into()));
    }
    // and the state is untouched: the nick of the fragment is free, its channel does not exist
    w.send_line(1, "ISON stolen");
    w.send_line(1, "LIST #fragment");
    w.settle();
    let ls = w.drain(1);
    if ls.iter().any(|l| l.contains(" 303 ") && l.contains("stolen")) || ls.iter().any(|l| l.contains(" 322 ")) {
        return Err(fail("fragment-executed", format!("the unterminated fragment changed the state: {:?}", ls)));
    }
    Ok(())
}

// ------------------------------------------------------------------------------ chunking
#[derive(Clone, Debug, Serialize, Deserialize)]
pub struct ChunkCase {
    pub seeds: Vec<u16>,
}

fn strip_ts(l: &str) -> Option<String> {
    let m = refparse::parse(l).ok()?;
    match m.command.as_str() {
        "003" | "317" | "329" | "333" => None,
        "353" => {
            let mut p = m.params.clone();
            if let Some(last) = p.last_mut() {
                let mut v: Vec<&str> = last.split(' ').filter(|x| !x.is_empty()).collect();
                v.sort();
                *last = v.join(" ");
            }
            Some(format!("353 {}", p.join(" ")))
        }
        _ => Some(l.to_string()),
    }
}

pub fn check_chunk(c: &ChunkCase, st: &mut Stats) -> Result<(), Viol> {
    let mut s = S::new(&c.seeds);
    let seed = s.raw() as u64;
    let texts = ["hello", "a:b  c", ":lead", "\u{e9}\u{65e5}", "", "x y z "];
    let mut script: Vec<String> = vec!["NICK cc".into(), "USER cu 0 * :Chunky Client".into()];
    let n = 3 + s.pick(10);
    for _ in 0..n {
        script.push(match s.pick(10) {
            0 => "JOIN #c0".to_string(),
            1 => "PART #c0 :bye now".to_string(),
            2 => format!("PRIVMSG n1 :{}", texts[s.pick(texts.len())]),
            3 => format!("PRIVMSG #c0 :{}", texts[s.pick(texts.len())]),
            4 => "NAMES #c0".to_string(),
            5 => "".to_string(),
            6 => "   ".to_string(),
            7 => format!("TOPIC #c0 :{}", texts[s.pick(texts.len())]),
            8 => "WHOIS n1".to_string(),
            _ => format!("PING t{}", s.pick(100)),
        });
    }
    let run = |chunks: Option<Vec<usize>>| -> (Vec<String>, Vec<String>) {
        let (mut w, _) = scene(seed);
        let c = w.connect();
        let mut blob: Vec<u8> = vec![];
        for l in &script {
            blob.extend_from_slice(l.as_bytes());
            blob.extend_from_slice(b"\r\n");
        }
        match chunks {
            None => {
                for l in &script {
                    w.send_line(c, l);
                    w.settle();
                }
            }
            Some(sizes) => {
                let mut i = 0;
                let mut k = 0;
                while i < blob.len() {
                    let n = sizes[k % sizes.len()].max(1);
                    k += 1;
                    let e = (i + n).min(blob.len());
                    w.send_bytes(c, &blob[i..e]);
                    if k % 3 == 0 {
                        w.settle();
                    }
                    i = e;
                }
                w.settle();
            }
        }
        let a: Vec<String> = w.drain(c).iter().filter_map(|l| strip_ts(l)).collect();
        let b: Vec<String> = w.drain(1).iter().filter_map(|l| strip_ts(l)).collect();
        let _ = crate::sim::take_panics();
        (a, b)
    };
    let nsz = 1 + s.pick(6);
    let sizes: Vec<usize> = (0..nsz).map(|_| [1, 1, 2, 3, 7, 30, 200, 2000][s.pick(8)]).collect();
    let (a0, b0) = run(None);
    let (a1, b1) = run(Some(sizes.clone()));
    crate::sim::set_in_sim(false);
    st.nontrivial(format!("{:?}|{}", sizes, script.len()), || json!({"chunk_sizes": sizes, "script": script}));
    // replies (server-prefixed) keep their order; relayed lines keep their order per source; the
    // interleaving of the two streams on one socket is not defined (they travel through the
    // connection's queue and its reply buffer respectively)
    let split = |v: &Vec<String>| -> (Vec<String>, Vec<String>) {
        let mut rep = vec![];
        let mut rel = vec![];
        for l in v {
            // the own JOIN echo (and own user-MODE echo) is written by the handler itself, like
            // a reply; every other relayed line travels through the connection's queue
            let own_direct = l.starts_with(":cc!") && (l.contains(" JOIN ") || l.contains(" MODE cc "));
            if l.starts_with(":irc.irc ") || l.starts_with("353 ") || own_direct {
                rep.push(l.clone());
            } else {
                rel.push(l.clone());
            }
        }
        rel.sort_by_key(|l| l.split(' ').next().unwrap_or("").to_string());
        (rep, rel)
    };
    let (a0, a1, b0, b1) = (split(&a0), split(&a1), split(&b0), split(&b1));
    if a0 != a1 || b0 != b1 {
        let (a0, a1, b0, b1) = ([a0.0, a0.1].concat(), [a1.0, a1.1].concat(), [b0.0, b0.1].concat(), [b1.0, b1.1].concat());
        let first_diff = |x: &Vec<String>, y: &Vec<String>| -> String {
            for i in 0..x.len().max(y.len()) {
                if x.get(i) != y.get(i) {
                    return format!("first difference at line {}: {:?} vs {:?}", i, x.get(i), y.get(i));
                }
            }
            "equal".to_string()
        };
        let diff_note = format!("client {} / observer {}", first_diff(&a0, &a1), first_diff(&b0, &b1));
        return Err(Viol::new(
            "C13.chunking_invariance",
            "chunking",
            format!(
                "the same script sent line by line and in chunks of {:?} bytes gives different transcripts ({})\nscript {:?}\nline-at-a-time: {:?}\nchunked:        {:?}\nobserver line-at-a-time: {:?}\nobserver chunked:        {:?}",
                sizes, diff_note, script, a0, a1, b0, b1
            ),
        ));
    }
    Ok(())
}

// ------------------------------------------------------------- relay round trip (model-based)
fn relay_build(cfg: &[u16]) -> Built {
    let mut s = S::new(cfg);
    s.raw();
    let users = 3 + s.pick(3);
    let mut c = CfgSpec::default();
    c.opers.push(OperSpec { name: "op0".into(), password: "operpw0".into(), mask: None });
    let mut prof = Profile::base().with(&[
        (K::Privmsg, 22),
        (K::Notice, 10),
        (K::Topic, 14),
        (K::Part, 8),
        (K::Kick, 8),
        (K::Nick, 8),
        (K::Invite, 6),
        (K::Wallops, 8),
        (K::Away, 6),
        (K::Join, 12),
        (K::ModeUser, 4),
        (K::ModeChan, 4),
    ]);
    prof.oper_names.push(("op0".into(), "operpw0".into()));
    let mut setup = vec![];
    setup.push(("n0".to_string(), "OPER op0 operpw0".to_string()));
    for i in 0..users {
        setup.push((format!("n{}", i), "JOIN #c0".to_string()));
        if s.chance(50) {
            setup.push((format!("n{}", i), format!("MODE n{} +w", i)));
        }
    }
    Built { cfg: c, prof, prelude_users: users, setup }
}

// C13 owns framing/parse failures of emitted lines and *content* mismatches of relayed lines:
// a line that was expected on a connection and arrived there with the same source and verb but
// different parameters (target, text, reason, topic, nickname).  Pure audience errors (a copy
// too many or too few) belong to C01/C04/C09/C10.
fn relay_owns(d: &Disc, o: &StepOut, _t: &Trace) -> bool {
    let same_slot = |a: &crate::norm::NL, b: &crate::norm::NL| a[0] == b[0] && a[1] == b[1] && a != b;
    match d {
        Disc::Framing { .. } | Disc::Malformed { .. } => true,
        Disc::Missing { line, conn } | Disc::Extra { line, conn } => {
            let relevant = if line[0] == "S" {
                ["301", "332"].contains(&line[1].as_str())
            } else {
                ["PRIVMSG", "NOTICE", "TOPIC", "PART", "KICK", "NICK", "INVITE", "WALLOPS"].contains(&line[1].as_str())
            };
            if !relevant {
                return false;
            }
            let missing = matches!(d, Disc::Missing { .. });
            o.discs.iter().any(|x| match x {
                Disc::Extra { line: l2, conn: c2 } if missing => c2 == conn && same_slot(line, l2),
                Disc::Missing { line: l2, conn: c2 } if !missing => c2 == conn && same_slot(line, l2),
                _ => false,
            })
        }
        _ => false,
    }
}

fn relay_nontrivial(t: &Trace) -> Option<String> {
    let kinds = [
        ("send:chan:ok", 'c'),
        ("send:nick:ok", 'n'),
        ("topic:set", 't'),
        ("part:done", 'p'),
        ("kick:done", 'k'),
        ("nick:changed", 'N'),
        ("invite:done", 'i'),
        ("wallops:sent", 'w'),
        ("send:away", 'a'),
    ]
    .iter()
    .filter(|(p, _)| t.has(p))
    .map(|(_, c)| *c)
    .collect::<String>();
    if kinds.len() >= 2 {
        Some(format!("{}|{}", kinds, t.steps.min(40) / 8))
    } else {
        None
    }
}

pub const RELAY: MbSpec = MbSpec {
    id: "C13",
    ncfg: 16,
    max_ops: 30,
    build: relay_build,
    owns: relay_owns,
    probe_level: 0,
    nontrivial: relay_nontrivial,
    extra: None,
};

// -------------------------------------------------------- C14 (b): masks agree on the wire
fn mask_build(cfg: &[u16]) -> Built {
    let mut s = S::new(cfg);
    s.raw();
    let users = 4 + s.pick(3);
    let mut c = CfgSpec::default();
    let src = |i: usize| format!("n{}!~u{}@10.0.0.{}", i, i, i + 1);
    // operator and configured-user masks derived from real sources
    let om = derive_mask(&src(s.pick(users)), &mut s);
    // (an empty mask is a mask that matches nothing)
    let om = if s.chance(8) { String::new() } else { om };
    c.opers.push(OperSpec { name: "op0".into(), password: "operpw0".into(), mask: Some(om) });
    // (half of the time the configured user's mask constrains just the nick: registering under
    // that user name works with exactly one nick, wherever the connection comes from)
    // (the nick is one nobody holds at the start, so that new connections can contend for it)
    let um = if s.chance(50) { format!("n{}!*@*", users + s.pick(8 - users)) } else { derive_mask(&src(1 + s.pick(users - 1)), &mut s) };
    let um = if s.chance(8) { String::new() } else { um };
    c.users.push(UserSpec { name: "u1".into(), nick: "n1".into(), password: None, mask: Some(um) });
    let mut prof = Profile::base().with(&[
        (K::ModeChan, 26),
        (K::Join, 26),
        (K::Who, 14),
        (K::Whois, 10),
        (K::Oper, 8),
        (K::Part, 6),
        (K::Nick, 4),
        (K::Privmsg, 6),
        // registrations under the configured user name, also contended and retried under another
        // nick: the mask is matched against the source the connection has when it completes
        (K::Contend, 5),
        (K::RegLine, 6),
        (K::RawConnect, 2),
        (K::NewUser, 6),
    ]);
    prof.oper_names.push(("op0".into(), "operpw0".into()));
    prof.reg_usernames.push("u1".into());
    prof.max_conns = 9;
    // newcomers whose user name contains '@', '!' or '*'
    for n in ["nat", "nex", "nst", "nat", "nex", "nat"] {
        prof.nicks.push(n.into());
    }
    let mut setup = vec![];
    setup.push(("n0".to_string(), "JOIN #c0".to_string()));
    if s.chance(60) {
        setup.push(("n0".to_string(), "MODE #c0 +i".to_string()));
    }
    for _ in 0..(1 + s.pick(3)) {
        let who = 1 + s.pick(users - 1);
        let l = ["b", "b", "e", "I"][s.pick(4)];
        setup.push(("n0".to_string(), format!("MODE #c0 +{} {}", l, derive_mask(&src(who), &mut s))));
    }
    // host bans waiting for the first newcomers
    if s.chance(25) {
        setup.push(("n0".to_string(), format!("MODE #c0 +b {}", ["*!*@10.0.0.?", "*!*@10.0.0.*", "*!~*@10.*.0.?"][s.pick(3)])));
    }
    Built { cfg: c, prof, prelude_users: users, setup }
}

fn mask_owns(d: &Disc, out: &StepOut, _t: &Trace) -> bool {
    match d {
        Disc::Panic { .. } => true,
        Disc::AnyOf { set, .. } => set.iter().any(|l| ["474", "473", "464", "491"].contains(&l[1].as_str())),
        Disc::Missing { line, .. } | Disc::Extra { line, .. } => {
            if line[0] == "S" {
                ["474", "473", "491", "381", "352", "311", "367", "348", "346", "001", "ERROR"].contains(&line[1].as_str())
                    || (line[1] == "324" && out.ctx == "MODE#")
            } else {
                (line[1] == "MODE" && line.iter().any(|x| x.starts_with("+b") || x.starts_with("-b") || x.starts_with("+e") || x.starts_with("+I") || x.starts_with("-e") || x.starts_with("-I")))
                    || (line[1] == "JOIN" && out.ctx == "JOIN")
            }
        }
        _ => false,
    }
}

fn mask_nontrivial(t: &Trace) -> Option<String> {
    let mut sigs = std::collections::BTreeSet::new();
    for tag in &t.tags {
        if let Some(r) = tag.strip_prefix("join:accept:") {
            if r.contains('b') || r.contains('I') {
                sigs.insert(format!("A:{}", r));
            }
        } else if let Some(r) = tag.strip_prefix("join:refused:") {
            if r.contains('b') || r.contains('I') {
                sigs.insert(format!("R:{}", r));
            }
        } else if tag.starts_with("oper:") || tag.starts_with("reg:mask") {
            sigs.insert(tag.clone());
        }
    }
    if sigs.is_empty() {
        None
    } else {
        Some(sigs.into_iter().take(2).collect::<Vec<_>>().join(","))
    }
}

pub const MASKS: MbSpec = MbSpec {
    id: "C14",
    ncfg: 48,
    max_ops: 30,
    build: mask_build,
    owns: mask_owns,
    probe_level: 1,
    nontrivial: mask_nontrivial,
    extra: None,
};

fn frame_strat() -> impl Strategy<Value = FrameCase> {
    (prop_oneof![1980usize..2020, 1usize..1980, 2020usize..4200], any::<bool>()).prop_map(|(len, crlf)| FrameCase { len, crlf, seeds: vec![] })
}

fn chunk_strat() -> impl Strategy<Value = ChunkCase> {
    prop::collection::vec(any::<u16>(), 40).prop_map(|seeds| ChunkCase { seeds })
}

pub fn run_c13_sim(ctx: &RunCtx) -> Vec<PartOutcome> {
    let mut parts = vec![];
    // verb table: exhaustive over (verb, arity 0..max+2, variant)
    let mut idx: Vec<VerbCase> = vec![];
    for (vi, (_, _, params)) in TABLE.iter().enumerate() {
        for a in 0..=(params.len() + 2) {
            for variant in 0..3 {
                idx.push(VerbCase { verb: vi, arity: a, variant });
            }
        }
    }
    let idx2 = idx.clone();
    parts.push(enumerate(ctx, "verb_table", idx.len() as u64, move |i| idx2[i as usize].clone(), check_verb));
    {
        let n = INVALID_PARAM_LINES.len() as u64 * 3;
        parts.push(enumerate(ctx, "invalid_params", n, |i| InvalidCase { index: (i / 3) as usize, variant: (i % 3) as usize }, check_invalid_param));
    }
    {
        let n = VALID_PARAM_LINES.len() as u64 * 2;
        parts.push(enumerate(ctx, "valid_params", n, |i| InvalidCase { index: (i / 2) as usize, variant: (i % 2) as usize }, check_valid_param));
    }
    parts.push(explore(ctx, "framing", ctx.tier.pick(2_000, 20_000), frame_strat, check_frame));
    parts.push(explore(ctx, "chunking", ctx.tier.pick(2_500, 30_000), chunk_strat, check_chunk));
    parts.push(explore(ctx, "eof_fragment", ctx.tier.pick(2_000, 20_000), || prop::collection::vec(any::<u16>(), 8).prop_map(|seeds| EofCase { seeds }), check_eof_fragment));
    let n = ctx.tier.pick(8_000, 100_000);
    parts.push(explore(ctx, "relay", n, || crate::scenario::sc_strategy(RELAY.ncfg, RELAY.max_ops), |c: &crate::scenario::ScCase, st: &mut Stats| run_case(&RELAY, c, st)));
    parts
}

pub fn replay_c13_sim(part: &str, input: &Value) -> Option<Result<Result<(), Viol>, String>> {
    match part {
        "verb_table" => Some(replay_input::<VerbCase>(input, check_verb)),
        "framing" => Some(replay_input::<FrameCase>(input, check_frame)),
        "chunking" => Some(replay_input::<ChunkCase>(input, check_chunk)),
        "eof_fragment" => Some(replay_input::<EofCase>(input, check_eof_fragment)),
        "invalid_params" => Some(replay_input::<InvalidCase>(input, check_invalid_param)),
        "valid_params" => Some(replay_input::<InvalidCase>(input, check_valid_param)),
        "relay" => Some(replay_input::<crate::scenario::ScCase>(input, |c, st| run_case(&RELAY, c, st))),
        _ => None,
    }
}

pub fn run_c14_wire(ctx: &RunCtx) -> Vec<PartOutcome> {
    let n = ctx.tier.pick(8_000, 100_000);
    vec![explore(ctx, "wire_agreement", n, || crate::scenario::sc_strategy(MASKS.ncfg, MASKS.max_ops), |c: &crate::scenario::ScCase, st: &mut Stats| run_case(&MASKS, c, st))]
}

pub fn replay_c14_wire(part: &str, input: &Value) -> Option<Result<Result<(), Viol>, String>> {
    match part {
        "wire_agreement" => Some(replay_input::<crate::scenario::ScCase>(input, |c, st| run_case(&MASKS, c, st))),
        _ => None,
    }
}
