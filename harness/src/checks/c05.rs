// C05 - no input can crash a session handler or the server.
// Role-based session fuzzer on the SIM engine: a scripted scene (ranked channel members, an IRC
// operator, a predefined channel), then a fuzzed connection in a chosen role sends lines built
// from a table of all verbs x arities x parameter shapes, or raw bytes.  Oracle: no connection
// task ends abnormally, closes only when the protocol says so, bystanders stay alive and keep
// exchanging messages.

use proptest::prelude::*;
use serde_derive::{Deserialize, Serialize};
use serde_json::{json, Value};

use crate::cfgspec::{CfgSpec, ChanSpec, OperSpec};
use crate::gen::S;
use crate::runner::*;
use crate::sim::{CloseKind, TaskEnd, World};

#[derive(Clone, Debug, Serialize, Deserialize)]
pub struct FuzzCase {
    pub scene: Vec<u16>,
    pub lines: Vec<Vec<u16>>,
}

pub const VERBS: &[(&str, usize)] = &[
    ("CAP", 2), ("AUTHENTICATE", 1), ("PASS", 1), ("NICK", 1), ("USER", 4), ("PING", 1), ("PONG", 1),
    ("OPER", 2), ("QUIT", 1), ("JOIN", 2), ("PART", 2), ("TOPIC", 2), ("NAMES", 1), ("LIST", 2),
    ("INVITE", 2), ("KICK", 3), ("MOTD", 1), ("VERSION", 1), ("ADMIN", 1), ("CONNECT", 3),
    ("LUSERS", 0), ("TIME", 1), ("STATS", 2), ("LINKS", 2), ("HELP", 1), ("INFO", 0), ("MODE", 4),
    ("PRIVMSG", 2), ("NOTICE", 2), ("WHO", 1), ("WHOIS", 2), ("WHOWAS", 3), ("KILL", 2), ("REHASH", 0),
    ("RESTART", 0), ("SQUIT", 2), ("AWAY", 1), ("USERHOST", 5), ("WALLOPS", 1), ("ISON", 5), ("DIE", 1),
    ("FOO", 2),
];

const ROLES: &[&str] = &[
    "unregistered", "alone", "plain", "voice", "halfop", "op", "protected", "founder", "ircop", "after-peers-left",
];

// first `n` characters (never slices inside a multi-byte character)
pub fn clip(s: &str, n: usize) -> String {
    s.chars().take(n).collect()
}

fn long(n: usize, c: char) -> String {
    std::iter::repeat(c).take(n).collect()
}

// one parameter of a given shape; names refer to the scene (n0.. members of #c0, f = fuzzer)
fn param(s: &mut S, me: &str) -> String {
    let k = s.pick(40);
    match k {
        0 => "#c0".into(),
        1 => "#c1".into(),
        2 => "#nonexistent".into(),
        3 => "&pre".into(),
        4 => "#c0,#c0".into(),
        5 => "#c0,#c1,&pre,#new1,#new1".into(),
        6 => {
            if s.chance(25) {
                me.to_uppercase()
            } else {
                me.to_string()
            }
        }
        7 => "n0".into(),
        8 => "n1,n1,n2".into(),
        9 => format!("{},n0,{}", me, me),
        10 => ["nobody", "gone", "n4", "n4r", "2", "1", "out"][s.pick(7)].into(),
        11 => "".into(),
        12 => long(1900, 'x'),
        13 => format!("#{}", long(1200, 'c')),
        14 => {
            if s.chance(50) {
                "\u{e9}\u{e9}\u{65e5}\u{672c}\u{1f600}".into()
            } else {
                // long multi-byte text: byte offsets 100, 255, 256, 300, 500, 512, 1000 fall
                // inside characters for at least one of the three widths
                let unit = ["\u{e9}", "\u{65e5}", "a\u{1f600}"][s.pick(3)];
                // (a 0..4 byte ASCII lead shifts the phase, so every offset is hit mid-character)
                // (640 bytes, sometimes 1300: beyond the advertised 1000-byte limits of texts)
                let total = if s.chance(30) { 1300 } else { 640 };
                format!("{}{}", long(s.pick(5), 'a'), unit.repeat(total / unit.len()))
            }
        }
        15 => "*".into(),
        16 => "*?*?*?*".into(),
        17 => long(60, '?'),
        18 => "*!*@*".into(),
        19 => "a*b*c*d*e*f*g*h".into(),
        20 => "0".into(),
        21 => "-1".into(),
        22 => "18446744073709551615".into(),
        23 => "18446744073709551616".into(),
        24 => "99999999999999999999999".into(),
        25 => "+o-o+l-l+b".into(),
        26 => "+kkk".into(),
        27 => "+lll".into(),
        28 => "-qaohv".into(),
        29 => "+beI".into(),
        30 => "+imtns-imtns".into(),
        31 => "~&@%+#c0".into(),
        32 => ["&&&", "~", "@@@@#", "&", "#", "+&pre", "&&pre", "%#c0", "@&pre", "~&@%+&pre", "%&pre"][s.pick(11)].into(),
        33 => "n0!~u0@10.0.0.1".into(),
        34 => "irc.irc".into(),
        35 => ["LS", "REQ", "END", "LIST", "302", "multi-prefix"][s.pick(6)].into(),
        36 => ["u", "m", "o", "x", "uu"][s.pick(5)].into(),
        37 => "a b c".into(),
        38 => ":colon".into(),
        _ => "k1".into(),
    }
}

pub fn fuzz_line(s: &mut S, me: &str) -> (String, String) {
    let (l, sig) = fuzz_line_inner(s, me);
    // a few lines start with a run of blanks (leading blanks are skipped by the grammar)
    if s.chance(5) {
        let n = 1 + s.pick(6);
        (format!("{}{}", " ".repeat(n), l), format!("{}/lead", sig))
    } else {
        (l, sig)
    }
}

fn fuzz_line_inner(s: &mut S, me: &str) -> (String, String) {
    let (verb, max) = VERBS[s.pick(VERBS.len())];
    let arity = s.pick(max + 3);
    let mut l = verb.to_string();
    // MODE gets structured shapes half of the time so that handlers are reached
    if verb == "MODE" && s.chance(15) {
        // list queries (bans, exceptions, invite exceptions) of every channel of the scene - the
        // configured channel has lists that were never set by a MODE command
        let target = ["#c0", "&pre", "&pre", "#c1"][s.pick(4)];
        let q = ["+b", "b", "+e", "+I", "+beI", "-b", "+b +e +I", "e", "I"][s.pick(9)];
        return (format!("MODE {} {}", target, q), format!("MODE/list{}", q.split(' ').next().unwrap_or("")));
    }
    if verb == "MODE" && s.chance(60) {
        // (the own nick also in another letter case: a different - here nonexistent - user)
        let upper = me.to_uppercase();
        let target = ["#c0", "#c1", "&pre", me, "n0", "#nonexistent", upper.as_str(), "N0", "#C0"][s.pick(9)];
        let strings = [
            "+o-o+l-l+b", "+ov n1 n2", "+b *!*@*", "-b *!*@*", "+b", "+e", "+I", "+k k1", "-k", "+l 1", "-l",
            "+kl k1 2", "+lk 3 k2", "+imtns", "-imtns", "+q n1", "-q n0", "+a n2", "-a n2", "+h n3", "-h n3",
            "+v n4 +v n3 -v n4", "+ooo n1 n1 n1", "+o nobody", "-o n0", "+v out", "+o out", "-h out", "+q out", "-v out", "+a out n1", "+bbb a b c", "+eI x y", "-beI a b c",
            "+i-i+i-i", "+oO", "-oO", "+iw", "-iw", "+r", "-r", "+lv 5 n1", "+kv k n1", "+b-b x!y@z x!y@z",
            "+o", "+l", "+k", "+l x", "+l -5", "+z", "-", "+", "+o-", "+b \u{e9}*?", "+I *?*",
            // arguments a validator may see differently from the handler (blanks, signs, radix)
            "+l :10 ", "+l : 5", "+l :+5", "+l 0x10", "+l 1e3", "+l :", "+k :key with blank", "+k :", "+lk :7  x", "+o :n1 ", "+v : n2", "+b : ", "+l 00000000000000000007",
        ];
        let ms = strings[s.pick(strings.len())];
        return (format!("MODE {} {}", target, ms), format!("MODE/{}", ms.split(' ').next().unwrap_or("")));
    }
    // half of the time start from the verb's well-formed parameter list (so that validation is
    // passed and the handler's own logic is reached) and vary names and numbers position-wise
    if s.chance(50) {
        if let Some((_, _, wf)) = crate::checks::wire13::TABLE.iter().find(|t| t.0 == verb) {
            let k = s.pick(wf.len() + 1);
            let mut ps: Vec<String> = vec![];
            for p in wf.iter().take(k) {
                let v = if p.chars().all(|c| c.is_ascii_digit()) {
                    ["0", "1", "2", "7", "99999", "18446744073709551615", "4294967296"][s.pick(7)].to_string()
                } else if *p == "n1" {
                    ["n1", "n0", "gone", "n4", "n4r", "f", "nobody", "n2,n3", "n1,n1"][s.pick(9)].to_string()
                } else if *p == "#c0" {
                    ["#c0", "#c1", "&pre", "#nonexistent", "#c0,#c1", "#c0,#c0", "@&pre", "+#c0", "%&pre,@#c0", "&pre,#c0"][s.pick(10)].to_string()
                } else if s.chance(20) {
                    param(s, me)
                } else {
                    p.to_string()
                };
                ps.push(v);
            }
            // now and then the last parameter (a text, comment, reason or topic) is longer than the
            // advertised 1000-byte limits and made of multi-byte characters at a shifted phase
            if !ps.is_empty() && s.chance(if ["KICK", "TOPIC", "PART", "AWAY", "QUIT", "KILL", "WALLOPS", "SQUIT"].contains(&verb) { 18 } else { 4 }) {
                let unit = ["\u{e9}", "\u{65e5}", "a\u{1f600}"][s.pick(3)];
                let n = ps.len();
                ps[n - 1] = format!("{}{}", long(s.pick(5), 'a'), unit.repeat(1200 / unit.len()));
            }
            let mut l = verb.to_string();
            for (i, p) in ps.iter().enumerate() {
                l.push(' ');
                if i + 1 == ps.len() && (p.contains(' ') || p.is_empty() || p.starts_with(':')) {
                    l.push(':');
                }
                l += &if i + 1 == ps.len() { p.clone() } else { p.replace(' ', "_") };
            }
            return (l, format!("{}/{}/wf", verb, ps.len()));
        }
    }
    let mut shapes = String::new();
    for i in 0..arity {
        let p = param(s, me);
        shapes.push(match p.len() {
            0 => 'e',
            1..=12 => 's',
            13..=200 => 'm',
            _ => 'L',
        });
        l.push(' ');
        if i + 1 == arity && (p.contains(' ') || p.is_empty() || p.starts_with(':') || s.chance(30)) {
            l.push(':');
        }
        l += &p.replace(' ', if i + 1 == arity { " " } else { "_" });
    }
    (l, format!("{}/{}/{}", verb, arity, shapes))
}

struct Scene {
    w: World,
    fuzzer: usize,
    me: String,
    bystanders: Vec<(usize, String)>,
    role: String,
    log: Vec<String>,
    justified_eof: Vec<bool>,
    eof_known: Vec<bool>,
}

impl Scene {
    fn send(&mut self, c: usize, l: &str) -> Vec<(usize, Vec<String>)> {
        self.log.push(format!("c{} > {}", c, if l.len() > 200 { format!("{}...({} bytes)", clip(l, 100), l.len()) } else { l.to_string() }));
        self.w.send_line(c, l);
        self.w.settle();
        self.collect()
    }
    fn collect(&mut self) -> Vec<(usize, Vec<String>)> {
        let mut out = vec![];
        for c in 0..self.w.conns.len() {
            let ls = self.w.drain(c);
            for l in &ls {
                if l.contains(" ERROR") || l.contains(" 464 ") {
                    self.justified_eof[c] = true;
                }
                let shown = if l.len() > 160 { format!("{}...", clip(l, 160)) } else { l.clone() };
                self.log.push(format!("c{} < {}", c, shown));
            }
            if !ls.is_empty() {
                out.push((c, ls));
            }
        }
        out
    }
    fn reg(&mut self, nick: &str) -> usize {
        let c = self.w.connect();
        self.justified_eof.push(false);
        self.eof_known.push(false);
        self.send(c, &format!("NICK {}", nick));
        self.send(c, &format!("USER u{} 0 * :Real {}", nick, nick));
        c
    }
}

fn build_scene(seeds: &[u16]) -> Scene {
    let mut s = S::new(seeds);
    let seed = s.raw() as u64;
    let role = ROLES[s.pick(ROLES.len())].to_string();
    let mut cfg = CfgSpec::default();
    cfg.opers.push(OperSpec { name: "op0".into(), password: "operpw0".into(), mask: None });
    cfg.channels.push(ChanSpec {
        name: "&pre".into(),
        topic: Some("predefined".into()),
        flags: "nt".into(),
        ban: vec!["*!*@192.168.*".into()],
        except: vec!["*!*@192.168.7.*".into()],
        invex: vec!["*!*@172.16.*".into()],
        // (rank lists naming members, connected non-members and nicks that never connect)
        operators: vec!["n1".into(), "f".into(), "ghost".into()],
        half_operators: vec!["phantom".into()],
        voices: vec!["n2".into(), "nobody".into()],
        ..Default::default()
    });
    cfg.max_joins = [None, Some(3)][s.pick(2)];
    let w = World::new(cfg.to_main_config(), seed);
    let mut sc = Scene { w, fuzzer: 0, me: "f".into(), bystanders: vec![], role: role.clone(), log: vec![], justified_eof: vec![], eof_known: vec![] };
    let nb = 5;
    for i in 0..nb {
        let n = format!("n{}", i);
        let c = sc.reg(&n);
        sc.bystanders.push((c, n));
    }
    let b0 = sc.bystanders[0].0;
    sc.send(b0, "JOIN #c0");
    for i in 1..nb {
        let c = sc.bystanders[i].0;
        sc.send(c, "JOIN #c0");
    }
    sc.send(b0, "MODE #c0 +o n1");
    sc.send(b0, "MODE #c0 +h n2");
    sc.send(b0, "MODE #c0 +v n3");
    sc.send(b0, "MODE #c0 +b *!*@172.16.*");
    sc.send(b0, "TOPIC #c0 :scene topic");
    let b1 = sc.bystanders[1].0;
    sc.send(b1, "OPER op0 operpw0");
    sc.send(b1, "JOIN &pre");
    sc.send(b1, "JOIN #c1");
    sc.send(b1, "MODE #c1 +k k1");
    // a registered user who is on no channel of the scene
    let oc = sc.reg("out");
    sc.bystanders.push((oc, "out".into()));
    let b4 = sc.bystanders[4].0;
    sc.send(b4, "AWAY :scene away");
    sc.send(b4, "MODE n4 +iw");
    // history: n4 changes its nick (keeping +w), and a user "gone" has come and left
    sc.send(b4, "NICK n4r");
    sc.bystanders[4].1 = "n4r".into();
    let g = sc.reg("gone");
    sc.send(g, "JOIN #c1");
    sc.send(g, "QUIT");
    // the fuzzed connection
    let f = sc.w.connect();
    sc.justified_eof.push(false);
    sc.eof_known.push(false);
    sc.fuzzer = f;
    if role != "unregistered" {
        sc.send(f, "NICK f");
        sc.send(f, "USER uf 0 * :Fuzzer");
        if role != "alone" {
            sc.send(f, "JOIN #c0");
            let grant = match role.as_str() {
                "voice" => Some("+v"),
                "halfop" => Some("+h"),
                "op" => Some("+o"),
                "protected" => Some("+a"),
                "founder" => Some("+q"),
                _ => None,
            };
            if let Some(g) = grant {
                sc.send(b0, &format!("MODE #c0 {} f", g));
            }
            if role == "ircop" {
                sc.send(f, "OPER op0 operpw0");
            }
            // half of the member roles are also on the configured channel (where the configuration
            // lists the fuzzer as operator)
            if s.chance(50) {
                sc.send(f, "JOIN &pre");
            }
            if role == "after-peers-left" {
                for i in 0..nb {
                    let c = sc.bystanders[i].0;
                    sc.send(c, "PART #c0");
                }
            }
        }
    }
    sc
}

fn check_health(sc: &mut Scene, sent_desc: &str, sender_may_close: bool) -> Result<(), Viol> {
    // (1) abnormal ends
    let panics = crate::sim::take_panics();
    for p in &panics {
        if let Some(c) = p.task {
            let file = p.loc.rsplit('/').next().unwrap_or("").split(':').next().unwrap_or("").to_string();
            let m: String = p.msg.chars().filter(|c| !c.is_ascii_digit()).take(60).collect();
            return Err(Viol::new(
                "C05.handler_abort",
                format!("panic:{}:{}:{}", file, m, sent_desc.split('/').next().unwrap_or("")),
                format!("after {} (role {}): the handler of c{} aborted: {} at {}", sent_desc, sc.role, c, p.msg, p.loc),
            )
            .with_transcript(sc.log.iter().rev().take(40).rev().cloned().collect()));
        }
    }
    for c in 0..sc.w.conns.len() {
        if sc.w.conns[c].task_end == Some(TaskEnd::Panic) {
            return Err(Viol::new(
                "C05.handler_abort",
                format!("task-panic:{}", sent_desc.split('/').next().unwrap_or("")),
                format!("after {}: connection task of c{} ended abnormally", sent_desc, c),
            )
            .with_transcript(sc.log.iter().rev().take(40).rev().cloned().collect()));
        }
        // (2) closes only when the protocol says so
        if sc.w.conns[c].eof && !sc.eof_known[c] {
            sc.eof_known[c] = true;
            let ok = sc.justified_eof[c] || (c == sc.fuzzer && sender_may_close);
            if !ok {
                return Err(Viol::new(
                    "C05.unjustified_close",
                    format!("close:{}:{}", if c == sc.fuzzer { "sender" } else { "bystander" }, sent_desc.split('/').next().unwrap_or("")),
                    format!("after {} (role {}): c{} was closed without QUIT/KILL/DIE/464/ERROR", sent_desc, sc.role, c),
                )
                .with_transcript(sc.log.iter().rev().take(40).rev().cloned().collect()));
            }
        }
    }
    Ok(())
}

fn liveness(sc: &mut Scene, tick: usize) -> Result<(), Viol> {
    let alive: Vec<(usize, String)> = sc.bystanders.iter().filter(|(c, _)| !sc.w.conns[*c].eof).cloned().collect();
    // every live bystander answers PING
    for (c, n) in &alive {
        let token = format!("live{}", tick);
        let r = sc.send(*c, &format!("PING {}", token));
        check_health(sc, "liveness PING", false)?;
        let got = r.iter().any(|(cc, ls)| cc == c && ls.iter().any(|l| l.contains("PONG") && l.contains(&token)));
        if !got && !sc.w.conns[*c].eof {
            return Err(Viol::new(
                "C05.bystander_stalled",
                "bystander-no-pong",
                format!("bystander {} (c{}) no longer answers PING (role {})", n, c, sc.role),
            )
            .with_transcript(sc.log.iter().rev().take(40).rev().cloned().collect()));
        }
    }
    // an operator's WALLOPS still reaches the +w bystander (n4r) - exercises another fan-out
    let (oc, wc) = (sc.bystanders[1].0, sc.bystanders[4].0);
    if !sc.w.conns[oc].eof && !sc.w.conns[wc].eof {
        let text = format!("wallops{}", tick);
        let r = sc.send(oc, &format!("WALLOPS :{}", text));
        check_health(sc, "liveness WALLOPS", false)?;
        let refused = r.iter().any(|(cc, ls)| *cc == oc && ls.iter().any(|l| l.contains(" 481 ")));
        let got = r.iter().any(|(cc, ls)| *cc == wc && ls.iter().any(|l| l.contains(" WALLOPS ") && l.ends_with(&text)));
        if !refused && !got && !sc.w.conns[oc].eof && !sc.w.conns[wc].eof {
            return Err(Viol::new(
                "C05.bystander_deprived",
                "bystander-no-wallops",
                format!("an operator's WALLOPS did not reach the +w bystander (role {})", sc.role),
            )
            .with_transcript(sc.log.iter().rev().take(40).rev().cloned().collect()));
        }
    }
    // two live bystanders still exchange a message
    let alive: Vec<(usize, String)> = alive.into_iter().filter(|(c, _)| !sc.w.conns[*c].eof).collect();
    if alive.len() >= 2 {
        let (a, _) = alive[tick % alive.len()].clone();
        let (b, bn) = alive[(tick + 1) % alive.len()].clone();
        // the receiver's nick may have been changed only by itself (never happens in the scene)
        let text = format!("probe{}", tick);
        let r = sc.send(a, &format!("PRIVMSG {} :{}", bn, text));
        check_health(sc, "liveness PRIVMSG", false)?;
        let got = r.iter().any(|(cc, ls)| *cc == b && ls.iter().any(|l| l.contains("PRIVMSG") && l.ends_with(&text)));
        if !got && !sc.w.conns[b].eof && !sc.w.conns[a].eof {
            return Err(Viol::new(
                "C05.bystander_deprived",
                "bystander-no-delivery",
                format!("a PRIVMSG between two bystanders (c{} -> {}) was not delivered (role {})", a, bn, sc.role),
            )
            .with_transcript(sc.log.iter().rev().take(40).rev().cloned().collect()));
        }
    }
    Ok(())
}

pub fn check(c: &FuzzCase, st: &mut Stats) -> Result<(), Viol> {
    let mut sc = build_scene(&c.scene);
    check_health(&mut sc, "scene set-up", false)?;
    st.count(&format!("role.{}", sc.role));
    let me = sc.me.clone();
    let f = sc.fuzzer;
    let mut last_nick: Option<String> = None;
    let mut rival_done = false;
    for (i, seedv) in c.lines.iter().enumerate() {
        if sc.w.conns[f].eof {
            break;
        }
        let mut s = S::new(seedv);
        // an unregistered fuzzer that has claimed a nick sees a rival register that nick first
        if sc.role == "unregistered" && !rival_done && last_nick.is_some() && s.pick(6) == 0 {
            let n = last_nick.clone().unwrap();
            let r = sc.w.connect();
            sc.justified_eof.push(false);
            sc.eof_known.push(false);
            sc.send(r, &format!("NICK {}", n));
            sc.send(r, "USER rival 0 * :Rival");
            rival_done = true;
            st.count("rival_registrations");
            check_health(&mut sc, "rival registration", false)?;
            // the fuzzer completes its registration under the lost nick, then tries another one
            sc.send(f, "USER fz 0 * :Late Fuzzer");
            check_health(&mut sc, "USER after a rival took the nick", false)?;
            sc.send(f, &format!("NICK {}x", n));
            check_health(&mut sc, "NICK after the 433 at completion", false)?;
        }
        let raw_mode = s.pick(20) == 19;
        if raw_mode {
            // raw bytes: invalid UTF-8, NUL, bare CR, over-long line, odd chunking
            let k = s.pick(7);
            let bytes: Vec<u8> = match k {
                0 => b"PRIVMSG n0 :\xff\xfe\xfd\r\n".to_vec(),
                1 => b"PRIVMSG n0 :a\0b\r\n".to_vec(),
                2 => b"PRIVMSG n0 :a\rb\r\nPING x\r\n".to_vec(),
                3 => {
                    if s.chance(30) {
                        // the same command twice in one write (the second one meets what the first
                        // has left half done)
                        ["KILL n2 :one\r\nKILL n2 :two\r\nPING after\r\n", "KICK #c0 n3\r\nKICK #c0 n3\r\nPING after\r\n", "PART #c0\r\nPART #c0\r\nPING after\r\n", "OPER op0 operpw0\r\nKILL n3 :x\r\nKILL n3 :y\r\nPING after\r\n"][s.pick(4)].as_bytes().to_vec()
                    } else {
                        format!("PRIVMSG n0 :{}\r\nPING after\r\n", long(1995 + s.pick(20), 'y')).into_bytes()
                    }
                }
                4 => format!("{}\r\n", long(4100, 'z')).into_bytes(),
                5 => b"\r\n\r\n   \r\n\n\nPING e\n".to_vec(),
                _ => b"JOIN #c0\r\nPART #c0\r\nJOIN #c0\r\nPART #c0\r\nJOIN #c0\r\n".to_vec(),
            };
            sc.log.push(format!("c{} > (raw kind {})", f, k));
            if k == 6 {
                for ch in bytes.chunks(1 + s.pick(5)) {
                    sc.w.send_bytes(f, ch);
                }
            } else {
                sc.w.send_bytes(f, &bytes);
            }
            sc.w.settle();
            sc.collect();
            st.count("raw_inputs");
            // invalid text and over-long lines may at worst close the sender cleanly
            check_health(&mut sc, &format!("RAW/{}", k), k == 0 || k == 3 || k == 4)?;
        } else {
            let (mut line, desc) = fuzz_line(&mut s, &me);
            let verb = desc.split('/').next().unwrap_or("").to_string();
            if sc.role == "unregistered" && verb == "NICK" && s.chance(60) {
                // claim a fresh, valid nick so that the late nick-collision path can be reached
                line = format!("NICK fz{}", i % 3);
            }
            if verb == "NICK" {
                if let Some(n) = line.split(' ').nth(1) {
                    if !n.is_empty() && !n.starts_with(':') && n.len() < 30 {
                        last_nick = Some(n.to_string());
                    }
                }
            }
            sc.send(f, &line);
            let reached_handler = sc.role != "unregistered";
            if reached_handler {
                st.nontrivial(format!("{}|{}", desc, sc.role), || json!({"role": sc.role, "line": if line.len() > 120 { format!("{}...", clip(&line, 120)) } else { line.clone() }}));
            }
            st.count(&format!("verb.{}", verb));
            let may_close = verb == "QUIT" || verb == "DIE" || verb == "SQUIT" || verb == "KILL" || verb == "PASS" || verb == "USER" || verb == "NICK" || verb == "CAP";
            // an over-long line may at worst close the sender cleanly
            check_health(&mut sc, &desc, may_close || line.len() >= 1998)?;
        }
        if i % 6 == 5 {
            liveness(&mut sc, i)?;
        }
    }
    liveness(&mut sc, 999)?;
    // client-side close of the fuzzer must not disturb anybody either
    sc.w.close(f, CloseKind::Drop);
    sc.w.settle();
    sc.collect();
    check_health(&mut sc, "close", true)?;
    liveness(&mut sc, 1000)?;
    crate::sim::set_in_sim(false);
    Ok(())
}

pub fn strat(max_lines: usize) -> impl Strategy<Value = FuzzCase> {
    (
        prop::collection::vec(any::<u16>(), 6),
        prop::collection::vec(prop::collection::vec(any::<u16>(), 10), 1..=max_lines),
    )
        .prop_map(|(scene, lines)| FuzzCase { scene, lines })
}

pub fn run(ctx: &RunCtx) -> Vec<PartOutcome> {
    let n = ctx.tier.pick(12_000, 300_000);
    let mut parts = vec![explore(ctx, "sessions", n, || strat(30), check)];
    parts.push(explore_with(ctx, "tcp_smoke", ctx.tier.pick(24, 400), 20, crate::checks::wirechecks::strat, crate::checks::wirechecks::c05_tcp_smoke));
    if ctx.tier == Tier::Thorough {
        parts.push(crate::fuzzdec::libfuzzer_part(ctx, "session", 30_000, 612));
    }
    parts
}

pub fn replay(part: &str, input: &Value) -> Option<Result<Result<(), Viol>, String>> {
    match part {
        "sessions" => Some(replay_input::<FuzzCase>(input, check)),
        "tcp_smoke" => Some(replay_input::<crate::checks::wirechecks::WireCase>(input, crate::checks::wirechecks::c05_tcp_smoke)),
        "libfuzzer_session" => Some(crate::fuzzdec::replay_bytes_case(input)),
        _ => None,
    }
}
