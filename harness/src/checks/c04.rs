// C04 - channel membership is one consistent relation that follows the history.

use serde_json::Value;
use std::collections::BTreeSet;

use crate::cfgspec::CfgSpec;
use crate::checks::mb::*;
use crate::engine::{Disc, Engine, StepOut};
use crate::gen::{Profile, K, S};
use crate::runner::*;
use crate::scenario::*;

fn build(cfg: &[u16]) -> Built {
    let mut s = S::new(cfg);
    s.raw();
    let users = 3 + s.pick(3);
    let prof = Profile::base().with(&[
        (K::Join, 26),
        (K::Part, 12),
        (K::Kick, 10),
        (K::Nick, 10),
        (K::Quit, 3),
        (K::Drop, 5),
        (K::NewUser, 7),
        (K::ModeChan, 6),
        (K::ModeUser, 3),
        (K::Names, 4),
        (K::Who, 4),
        (K::Whois, 4),
        (K::Privmsg, 3),
    ]);
    Built {
        cfg: CfgSpec::default(),
        prof,
        prelude_users: users,
        setup: vec![],
    }
}

// C04 owns: the roster views (353 / 352 / 319) and the *presence* of JOIN/PART/KICK/NICK
// announcements on the members (extra recipients are not judged here).
fn owns(d: &Disc, _out: &StepOut, _t: &Trace) -> bool {
    match d {
        Disc::Missing { line, .. } => {
            (line[0] != "S" && ["JOIN", "PART", "KICK", "NICK"].contains(&line[1].as_str()))
                || (line[0] == "S" && ["353", "352", "319"].contains(&line[1].as_str()))
        }
        Disc::Extra { line, .. } => line[0] == "S" && ["353", "352", "319"].contains(&line[1].as_str()),
        _ => false,
    }
}

fn nontrivial(t: &Trace) -> Option<String> {
    let joins = t.count_prefix("join:accept") + t.count_prefix("join:create");
    let parts = t.count_prefix("part:done");
    let kicks = t.count_prefix("kick:done");
    let nicks = t.count_prefix("nick:changed");
    let quits = t.count_prefix("quit");
    let changes = joins + parts + kicks + nicks + quits;
    if changes >= 3 && (parts + kicks + nicks + quits) >= 1 {
        Some(format!(
            "j{}p{}k{}n{}q{}",
            joins.min(4),
            parts.min(3),
            kicks.min(3),
            nicks.min(3),
            quits.min(2)
        ))
    } else {
        None
    }
}

// (c) every client reconstructs the roster of each channel it is on from the 353 it got on
// joining plus the announcements since; the reconstruction must contain the true roster and may
// only exceed it by users that left by disconnect (which this server does not announce).
fn extra(eng: &mut Engine, xs: &mut ExtraState, outs: &[StepOut]) -> Result<(), Viol> {
    for out in outs {
        for (c, raw) in &out.raw {
            let my_nick_before = None::<String>;
            let _ = my_nick_before;
            for l in raw {
                let Ok(m) = crate::refparse::parse(l) else { continue };
                let Some(src) = &m.source else { continue };
                let who = src.split('!').next().unwrap_or("").to_string();
                match m.command.as_str() {
                    "353" => {
                        if m.params.len() >= 4 {
                            let ch = m.params[2].clone();
                            // only a 353 for a channel the client has just joined starts a roster;
                            // later NAMES answers merely refresh it
                            let set = xs.recon.entry((*c, ch)).or_default();
                            for e in m.params[3].split(' ').filter(|x| !x.is_empty()) {
                                set.insert(e.trim_start_matches(|ch| "~&@%+".contains(ch)).to_string());
                            }
                        }
                    }
                    "JOIN" => {
                        if let Some(ch) = m.params.get(0) {
                            xs.recon.entry((*c, ch.clone())).or_default().insert(who.clone());
                        }
                    }
                    "PART" => {
                        if let Some(ch) = m.params.get(0) {
                            if let Some(set) = xs.recon.get_mut(&(*c, ch.clone())) {
                                set.remove(&who);
                            }
                        }
                    }
                    "KICK" => {
                        if let (Some(ch), Some(v)) = (m.params.get(0), m.params.get(1)) {
                            if let Some(set) = xs.recon.get_mut(&(*c, ch.clone())) {
                                set.remove(v);
                            }
                        }
                    }
                    "NICK" => {
                        if let Some(new) = m.params.get(0) {
                            // an entry that is stale because of an unannounced disconnect stays
                            // stale under the new name (the stated exception of the property)
                            if xs.left_by_disconnect.contains(&who) {
                                xs.left_by_disconnect.insert(new.clone());
                            }
                            for ((cc, _), set) in xs.recon.iter_mut() {
                                if cc == c && set.remove(&who) {
                                    set.insert(new.clone());
                                }
                            }
                        }
                    }
                    _ => {}
                }
            }
        }
    }
    // compare for every (member connection, channel)
    let m = &eng.model;
    for (ch, co) in &m.chans {
        for n in co.members.keys() {
            let c = m.users[n].conn;
            let truth: BTreeSet<String> = co.members.keys().cloned().collect();
            let Some(rec) = xs.recon.get(&(c, ch.clone())) else {
                continue;
            };
            *xs.counters.entry("roster_reconstructions_compared".into()).or_insert(0) += 1;
            let missing: Vec<&String> = truth.difference(rec).collect();
            let ghosts: Vec<&String> = rec
                .difference(&truth)
                .filter(|g| !xs.left_by_disconnect.contains(*g) && m.users.contains_key(*g))
                .collect();
            if !missing.is_empty() || !ghosts.is_empty() {
                return Err(Viol::new(
                    "C04.reconstructed_roster",
                    "reconstruction-mismatch",
                    format!(
                        "roster of {} reconstructed by c{} ({}) from 353 + announcements: missing {:?}, stale {:?}",
                        ch, c, n, missing, ghosts
                    ),
                )
                .with_transcript(eng.tail(60)));
            }
        }
    }
    // forget rosters of channels a connection is no longer on
    let keep: Vec<(usize, String)> = xs
        .recon
        .keys()
        .filter(|(c, ch)| {
            m.nick_of(*c)
                .map_or(false, |n| m.chans.get(ch).map_or(false, |co| co.members.contains_key(n)))
        })
        .cloned()
        .collect();
    xs.recon.retain(|k, _| keep.contains(k));
    Ok(())
}

pub const SPEC: MbSpec = MbSpec {
    id: "C04",
    ncfg: 4,
    max_ops: 40,
    build,
    owns,
    probe_level: 1,
    nontrivial,
    extra: Some(extra),
};

pub fn run(ctx: &RunCtx) -> Vec<PartOutcome> {
    let n = ctx.tier.pick(6_000, 100_000);
    let max_ops = ctx.tier.pick(40, 100);
    vec![explore(
        ctx,
        "history",
        n,
        || sc_strategy(SPEC.ncfg, max_ops),
        |c: &ScCase, st: &mut Stats| run_case(&SPEC, c, st),
    )]
}

pub fn replay(part: &str, input: &Value) -> Option<Result<Result<(), Viol>, String>> {
    match part {
        "history" => Some(replay_input::<ScCase>(input, |c, st| run_case(&SPEC, c, st))),
        _ => None,
    }
}
