// C04 - channel membership is one consistent relation that follows the history.

use serde_json::Value;
use std::collections::BTreeSet;

use crate::cfgspec::CfgSpec;
use crate::checks::mb::*;
use crate::engine::{Disc, Engine, StepOut};
use crate::gen::{Profile, K, S};
use crate::runner::*;
use crate::scenario::*;

fn build(cfg: &[u16]) -> Built {
    let mut s = S::new(cfg);
    s.raw();
    let users = 3 + s.pick(3);
    let prof = Profile::base().with(&[
        (K::Join, 26),
        (K::Part, 12),
        (K::Kick, 10),
        (K::Nick, 10),
        (K::Quit, 3),
        (K::Drop, 5),
        (K::NewUser, 7),
        (K::ModeChan, 6),
        (K::ModeUser, 3),
        (K::Names, 4),
        (K::Who, 4),
        (K::Whois, 4),
        (K::Privmsg, 3),
        (K::CapPost, 3),
    ]);
    // half of the cases have a channel declared in the configuration (it persists while empty)
    let mut cfg = CfgSpec::default();
    let mut prof = prof;
    if s.chance(50) {
        cfg.channels.push(crate::cfgspec::ChanSpec { name: "#pre0".into(), topic: Some("configured".into()), flags: "nt".into(), voices: vec!["n1".into()], ..Default::default() });
        prof.chans.push("#pre0".into());
    }
    crate::checks::mbchecks::enrich(
        Built {
            cfg,
            prof,
            prelude_users: users,
            setup: vec![],
        },
        &mut s,
    )
}

// C04 owns: the roster views (353 / 352 / 319) and the *presence* of JOIN/PART/KICK/NICK
// announcements on the members (extra recipients are not judged here).
fn owns(d: &Disc, _out: &StepOut, _t: &Trace) -> bool {
    match d {
        Disc::Missing { line, .. } => {
            (line[0] != "S" && ["JOIN", "PART", "KICK", "NICK"].contains(&line[1].as_str()))
                || (line[0] == "S" && ["353", "352", "319"].contains(&line[1].as_str()))
        }
        Disc::Extra { line, .. } => line[0] == "S" && ["353", "352", "319"].contains(&line[1].as_str()),
        _ => false,
    }
}

fn nontrivial(t: &Trace) -> Option<String> {
    let joins = t.count_prefix("join:accept") + t.count_prefix("join:create");
    let parts = t.count_prefix("part:done");
    let kicks = t.count_prefix("kick:done");
    let nicks = t.count_prefix("nick:changed");
    let quits = t.count_prefix("quit");
    let changes = joins + parts + kicks + nicks + quits;
    if changes >= 3 && (parts + kicks + nicks + quits) >= 1 {
        Some(format!(
            "j{}p{}k{}n{}q{}",
            joins.min(4),
            parts.min(3),
            kicks.min(3),
            nicks.min(3),
            quits.min(2)
        ))
    } else {
        None
    }
}

// (c) every client reconstructs the roster of each channel it is on from the 353 it got on
// joining plus the announcements since; the reconstruction must contain the true roster and may
// only exceed it by users that left by disconnect (which this server does not announce).
fn extra(eng: &mut Engine, xs: &mut ExtraState, outs: &[StepOut]) -> Result<(), Viol> {
    for out in outs {
        for (c, raw) in &out.raw {
            let my_nick_before = None::<String>;
            let _ = my_nick_before;
            for l in raw {
                let Ok(m) = crate::refparse::parse(l) else { continue };
                let Some(src) = &m.source else { continue };
                let who = src.split('!').next().unwrap_or("").to_string();
                match m.command.as_str() {
                    "353" => {
                        if m.params.len() >= 4 {
                            let ch = m.params[2].clone();
                            // only a 353 for a channel the client has just joined starts a roster;
                            // later NAMES answers merely refresh it
                            let set = xs.recon.entry((*c, ch)).or_default();
                            for e in m.params[3].split(' ').filter(|x| !x.is_empty()) {
                                set.insert(e.trim_start_matches(|ch| "~&@%+".contains(ch)).to_string());
                            }
                        }
                    }
                    "JOIN" => {
                        if let Some(ch) = m.params.get(0) {
                            xs.recon.entry((*c, ch.clone())).or_default().insert(who.clone());
                        }
                    }
                    "PART" => {
                        if let Some(ch) = m.params.get(0) {
                            if let Some(set) = xs.recon.get_mut(&(*c, ch.clone())) {
                                set.remove(&who);
                            }
                        }
                    }
                    "KICK" => {
                        if let (Some(ch), Some(v)) = (m.params.get(0), m.params.get(1)) {
                            if let Some(set) = xs.recon.get_mut(&(*c, ch.clone())) {
                                set.remove(v);
                            }
                        }
                    }
                    "NICK" => {
                        if let Some(new) = m.params.get(0) {
                            // an entry that is stale because of an unannounced disconnect stays
                            // stale under the new name (the stated exception of the property)
                            if xs.left_by_disconnect.contains(&who) {
                                xs.left_by_disconnect.insert(new.clone());
                            }
                            for ((cc, _), set) in xs.recon.iter_mut() {
                                if cc == c && set.remove(&who) {
                                    set.insert(new.clone());
                                }
                            }
                        }
                    }
                    _ => {}
                }
            }
        }
    }
    // compare for every (member connection, channel)
    let m = &eng.model;
    for (ch, co) in &m.chans {
        for n in co.members.keys() {
            let c = m.users[n].conn;
            let truth: BTreeSet<String> = co.members.keys().cloned().collect();
            let Some(rec) = xs.recon.get(&(c, ch.clone())) else {
                continue;
            };
            *xs.counters.entry("roster_reconstructions_compared".into()).or_insert(0) += 1;
            let missing: Vec<&String> = truth.difference(rec).collect();
            let ghosts: Vec<&String> = rec
                .difference(&truth)
                .filter(|g| !xs.left_by_disconnect.contains(*g) && m.users.contains_key(*g))
                .collect();
            if !missing.is_empty() || !ghosts.is_empty() {
                return Err(Viol::new(
                    "C04.reconstructed_roster",
                    "reconstruction-mismatch",
                    format!(
                        "roster of {} reconstructed by c{} ({}) from 353 + announcements: missing {:?}, stale {:?}",
                        ch, c, n, missing, ghosts
                    ),
                )
                .with_transcript(eng.tail(60)));
            }
        }
    }
    // forget rosters of channels a connection is no longer on
    let keep: Vec<(usize, String)> = xs
        .recon
        .keys()
        .filter(|(c, ch)| {
            m.nick_of(*c)
                .map_or(false, |n| m.chans.get(ch).map_or(false, |co| co.members.contains_key(n)))
        })
        .cloned()
        .collect();
    xs.recon.retain(|k, _| keep.contains(k));
    Ok(())
}

pub const SPEC: MbSpec = MbSpec {
    id: "C04",
    ncfg: 4,
    max_ops: 40,
    build,
    owns,
    probe_level: 1,
    nontrivial,
    extra: Some(extra),
};

pub fn run(ctx: &RunCtx) -> Vec<PartOutcome> {
    let n = ctx.tier.pick(6_000, 100_000);
    let max_ops = ctx.tier.pick(40, 100);
    use proptest::prelude::*;
    vec![
        explore(
            ctx,
            "history",
            n,
            || sc_strategy(SPEC.ncfg, max_ops),
            |c: &ScCase, st: &mut Stats| run_case(&SPEC, c, st),
        ),
        explore(
            ctx,
            "crowded",
            ctx.tier.pick(300, 5_000),
            || prop::collection::vec(any::<u16>(), 120).prop_map(|seeds| CrowdCase { seeds }),
            check_crowded,
        ),
    ]
}

pub fn replay(part: &str, input: &Value) -> Option<Result<Result<(), Viol>, String>> {
    match part {
        "history" => Some(replay_input::<ScCase>(input, |c, st| run_case(&SPEC, c, st))),
        "crowded" => Some(replay_input::<CrowdCase>(input, check_crowded)),
        _ => None,
    }
}

// ---------------------------------------------------------------------------------------------
// crowded: rosters larger than the reply chunk sizes (20 names per 353, 30 channels per 319,
// 20 nicks per 303/302 line).  Truth is tracked directly; NAMES / WHO / WHOIS must list it exactly.

#[derive(Clone, Debug, serde_derive::Serialize, serde_derive::Deserialize)]
pub struct CrowdCase {
    pub seeds: Vec<u16>,
}

pub fn check_crowded(c: &CrowdCase, st: &mut Stats) -> Result<(), Viol> {
    use crate::sim::World;
    let mut s = S::new(&c.seeds);
    let seed = s.raw() as u64;
    let n = 18 + s.pick(30);
    let mut w = World::new(CfgSpec::default().to_main_config(), seed);
    let mut log: Vec<String> = vec![];
    let mut members: BTreeSet<usize> = BTreeSet::new();
    let mut nick: Vec<String> = vec![];
    for i in 0..n {
        let c = w.connect();
        nick.push(format!("m{}", i));
        w.send_line(c, &format!("NICK m{}", i));
        w.send_line(c, &format!("USER u{} 0 * :Crowd {}", i, i));
        w.settle();
        w.drain(c);
    }
    let outsider = n - 1;
    for i in 0..(n - 1) {
        if i == 0 || s.chance(92) {
            w.send_line(i, "JOIN #big");
            members.insert(i);
        }
    }
    w.settle();
    // one user sits on many channels (319 chunking)
    let many = 25 + s.pick(20);
    let mut list = vec![];
    for k in 0..many {
        list.push(format!("#w{}", k));
    }
    w.send_line(1, &format!("JOIN {}", list.join(",")));
    w.settle();
    for i in 0..n {
        w.drain(i);
    }
    let fail = |pred: &str, msg: String, log: &Vec<String>| Viol::new(pred, pred.split('.').last().unwrap_or("").to_string(), msg).with_transcript(log.iter().rev().take(30).rev().cloned().collect());
    let names_of = |w: &mut World, viewer: usize, log: &mut Vec<String>| -> (BTreeSet<String>, BTreeSet<String>) {
        w.send_line(viewer, "NAMES #big");
        w.settle();
        let a = w.drain(viewer);
        w.send_line(viewer, "WHO #big");
        w.settle();
        let b = w.drain(viewer);
        let mut nm = BTreeSet::new();
        let mut wh = BTreeSet::new();
        for l in a.iter().chain(b.iter()) {
            if let Ok(m) = crate::refparse::parse(l) {
                if m.command == "353" {
                    for e in m.params.last().unwrap().split(' ').filter(|x| !x.is_empty()) {
                        nm.insert(e.trim_start_matches(|c| "~&@%+".contains(c)).to_string());
                    }
                } else if m.command == "352" {
                    wh.insert(m.params[5].clone());
                }
            }
        }
        log.push(format!("viewer c{}: NAMES {} entries, WHO {} entries", viewer, nm.len(), wh.len()));
        (nm, wh)
    };
    // comments of every size: none, short, or long multi-byte text around the advertised
    // KICKLEN / TOPICLEN of 1000 bytes at every phase (only who sees the announcement is compared,
    // never the text, so a server that cuts the comment at a character boundary stays silent)
    fn comment(s: &mut S) -> String {
        match s.pick(10) {
            0..=4 => String::new(),
            5 | 6 => " :bye now".to_string(),
            _ => {
                let ch = ["\u{e9}", "\u{65e5}", "\u{1f600}"][s.pick(3)];
                let total = [400usize, 996, 1000, 1004, 1300][s.pick(5)];
                let lead = s.pick(4);
                let mut t = "a".repeat(lead);
                while t.len() < total {
                    t.push_str(ch);
                }
                format!(" :{}", t)
            }
        }
    }
    let rounds = 2 + s.pick(4);
    for r in 0..=rounds {
        let truth: BTreeSet<String> = members.iter().map(|i| nick[*i].clone()).collect();
        for viewer in [0usize, outsider] {
            let (nm, wh) = names_of(&mut w, viewer, &mut log);
            if nm != truth || wh != truth {
                return Err(fail(
                    "C04.crowded_roster",
                    format!(
                        "#big has {} members; viewer c{} sees {} in NAMES and {} in WHO; missing from NAMES {:?}, extra in NAMES {:?}, missing from WHO {:?}",
                        truth.len(),
                        viewer,
                        nm.len(),
                        wh.len(),
                        truth.difference(&nm).take(5).collect::<Vec<_>>(),
                        nm.difference(&truth).take(5).collect::<Vec<_>>(),
                        truth.difference(&wh).take(5).collect::<Vec<_>>()
                    ),
                    &log,
                ));
            }
        }
        // WHOIS of the user on many channels lists every one of them
        w.send_line(outsider, &format!("WHOIS {}", nick[1]));
        w.settle();
        let ls = w.drain(outsider);
        let mut chans = BTreeSet::new();
        for l in &ls {
            if let Ok(m) = crate::refparse::parse(l) {
                if m.command == "319" {
                    for e in m.params.last().unwrap().split(' ').filter(|x| !x.is_empty()) {
                        chans.insert(e.trim_start_matches(|c| "~&@%+".contains(c)).to_string());
                    }
                }
            }
        }
        let mut want: BTreeSet<String> = list.iter().cloned().collect();
        if members.contains(&1) {
            want.insert("#big".into());
        }
        if chans != want {
            return Err(fail("C04.crowded_whois", format!("WHOIS {} lists {} channels, it is on {}: missing {:?}", nick[1], chans.len(), want.len(), want.difference(&chans).take(5).collect::<Vec<_>>()), &log));
        }
        // presence of everybody in one ISON
        w.send_line(0, &format!("ISON {}", nick.join(" ")));
        w.settle();
        let ls = w.drain(0);
        let mut on = BTreeSet::new();
        for l in &ls {
            if let Ok(m) = crate::refparse::parse(l) {
                if m.command == "303" {
                    for e in m.params.last().unwrap().split(' ').filter(|x| !x.is_empty()) {
                        on.insert(e.to_string());
                    }
                }
            }
        }
        let all: BTreeSet<String> = nick.iter().cloned().collect();
        if on != all {
            return Err(fail("C04.crowded_ison", format!("ISON of {} registered nicks answered {}", all.len(), on.len()), &log));
        }
        if r == rounds {
            break;
        }
        // churn: a few PART / KICK / NICK / JOIN
        for _ in 0..(1 + s.pick(6)) {
            let i = s.pick(n - 1);
            match s.pick(4) {
                0 if members.contains(&i) && i != 0 => {
                    w.send_line(i, &format!("PART #big{}", comment(&mut s)));
                    members.remove(&i);
                    log.push(format!("{} parts", nick[i]));
                }
                1 if members.contains(&i) && i != 0 => {
                    w.send_line(0, &format!("KICK #big {}{}", nick[i], comment(&mut s)));
                    members.remove(&i);
                    log.push(format!("{} kicked", nick[i]));
                }
                2 => {
                    let nn = format!("{}x", nick[i]);
                    w.send_line(i, &format!("NICK {}", nn));
                    log.push(format!("{} -> {}", nick[i], nn));
                    nick[i] = nn;
                }
                _ if !members.contains(&i) => {
                    w.send_line(i, "JOIN #big");
                    members.insert(i);
                    log.push(format!("{} joins", nick[i]));
                }
                _ => {}
            }
            w.settle();
        }
        for i in 0..n {
            w.drain(i);
        }
    }
    // one command that is announced many times to the same member: every announcement arrives
    // (a comma-list JOIN / PART over channels shared with m1, a KICK naming many members)
    let k = (20 + s.pick(25)).min(many);
    let sub = list[..k].join(",");
    for verb in ["JOIN", "PART"] {
        w.send_line(2, &format!("{} {}", verb, sub));
        w.settle();
        w.settle();
        let ls = w.drain(1);
        w.drain(2);
        let got: BTreeSet<String> = ls
            .iter()
            .filter_map(|l| crate::refparse::parse(l).ok())
            .filter(|m| m.command == verb && m.source.as_deref().map_or(false, |x| x.starts_with(&format!("{}!", nick[2]))))
            .filter_map(|m| m.params.get(0).cloned())
            .collect();
        let want: BTreeSet<String> = list[..k].iter().cloned().collect();
        log.push(format!("{} {}s {} channels shared with {}: {} announcements", nick[2], verb, k, nick[1], got.len()));
        if got != want {
            return Err(fail(
                "C04.every_announcement_delivered",
                format!("{} sent one {} for {} channels it shares with {}; {} got {} announcements, missing {:?}", nick[2], verb, k, nick[1], nick[1], got.len(), want.difference(&got).take(5).collect::<Vec<_>>()),
                &log,
            ));
        }
    }
    let victims: Vec<usize> = members.iter().cloned().filter(|i| *i > 1).take(20 + s.pick(25)).collect();
    if victims.len() >= 2 && members.contains(&1) {
        let names: Vec<String> = victims.iter().map(|i| nick[*i].clone()).collect();
        let cm = comment(&mut s);
        w.send_line(0, &format!("KICK #big {}{}", names.join(","), if cm.is_empty() { " :all out".to_string() } else { cm }));
        w.settle();
        w.settle();
        let ls = w.drain(1);
        let got: BTreeSet<String> = ls.iter().filter_map(|l| crate::refparse::parse(l).ok()).filter(|m| m.command == "KICK").filter_map(|m| m.params.get(1).cloned()).collect();
        let want: BTreeSet<String> = names.iter().cloned().collect();
        log.push(format!("{} kicks {} members in one command: {} sees {} KICKs", nick[0], names.len(), nick[1], got.len()));
        if got != want {
            return Err(fail(
                "C04.every_announcement_delivered",
                format!("one KICK named {} members of #big; the member {} saw {} of them leave, not {:?}", names.len(), nick[1], got.len(), want.difference(&got).take(5).collect::<Vec<_>>()),
                &log,
            ));
        }
        for v in &victims {
            members.remove(v);
        }
        for i in 0..n {
            w.drain(i);
        }
        let truth: BTreeSet<String> = members.iter().map(|i| nick[*i].clone()).collect();
        let (nm, wh) = names_of(&mut w, outsider, &mut log);
        if nm != truth || wh != truth {
            return Err(fail("C04.crowded_roster", format!("after a KICK of {} members #big has {} members; NAMES shows {}, WHO {}", names.len(), truth.len(), nm.len(), wh.len()), &log));
        }
    }
    for p in crate::sim::take_panics() {
        if p.task.is_some() {
            return Err(fail("C04.crowded_roster", format!("handler aborted: {} at {}", p.msg, p.loc), &log));
        }
    }
    crate::sim::set_in_sim(false);
    st.nontrivial(format!("n{}|w{}|r{}", members.len() / 5, many / 10, rounds), || serde_json::json!({"members": members.len(), "channels_of_m1": many, "rounds": rounds}));
    Ok(())
}
