// C12 - secret channels and invisible users stay hidden from outsiders.
// Two-world differential (non-interference): world W1 runs the public history plus the hidden
// part, world W0 runs the same history with the hidden part removed; an outside observer asks
// the same LIST/NAMES/WHO/WHOIS questions in both and must get the same answers.

use proptest::prelude::*;
use serde_derive::{Deserialize, Serialize};
use serde_json::{json, Value};
use std::collections::BTreeMap;

use crate::cfgspec::{CfgSpec, OperSpec, SERVER_NAME};
use crate::gen::S;
use crate::norm;
use crate::runner::*;
use crate::sim::World;

#[derive(Clone, Debug, Serialize, Deserialize)]
pub struct PairCase {
    pub seeds: Vec<u16>,
}

struct W {
    world: World,
    conn: BTreeMap<String, usize>,
    log: Vec<String>,
}

impl W {
    fn new(cfg: &CfgSpec, seed: u64) -> W {
        W { world: World::new(cfg.to_main_config(), seed), conn: BTreeMap::new(), log: vec![] }
    }
    fn register(&mut self, nick: &str, shared_user: bool) {
        let c = self.world.connect();
        self.conn.insert(nick.to_string(), c);
        self.world.send_line(c, &format!("NICK {}", nick));
        // (in some worlds everybody logs in under the same user name, as behind a web gateway)
        let user = if shared_user { "webchat".to_string() } else { format!("u{}", nick) };
        self.world.send_line(c, &format!("USER {} 0 * :Real {}", user, nick));
        self.world.settle();
        self.drain_all();
    }
    fn drain_all(&mut self) -> BTreeMap<usize, Vec<String>> {
        let mut m = BTreeMap::new();
        for c in 0..self.world.conns.len() {
            let l = self.world.drain(c);
            if !l.is_empty() {
                m.insert(c, l);
            }
        }
        m
    }
    fn line(&mut self, nick: &str, line: &str) -> BTreeMap<usize, Vec<String>> {
        let Some(&c) = self.conn.get(nick) else {
            return BTreeMap::new();
        };
        self.log.push(format!("{} > {}", nick, line));
        self.world.send_line(c, line);
        self.world.settle();
        let r = self.drain_all();
        for (cc, ls) in &r {
            for l in ls {
                self.log.push(format!("c{} < {}", cc, l));
            }
        }
        r
    }
}

fn build(seeds: &[u16]) -> (CfgSpec, Vec<(String, String, bool)>, Vec<String>, String, String, Vec<String>) {
    // returns (cfg, script[(nick, line, hidden)], nicks to register (hidden user last, flagged by name),
    //          hidden kind, observer kind, queries)
    let mut s = S::new(seeds);
    s.raw();
    let secret_case = s.chance(55);
    let obs_kind = ["outsider", "member-elsewhere", "operator"][s.pick(3)].to_string();
    let mut cfg = CfgSpec::default();
    cfg.opers.push(OperSpec { name: "op0".into(), password: "operpw0".into(), mask: None });
    let mut script: Vec<(String, String, bool)> = vec![];
    let obs = "n0".to_string();
    let nusers = 3 + s.pick(3);
    let mut nicks: Vec<String> = (0..nusers).map(|i| format!("n{}", i)).collect();
    // public history among n1.. (and the observer in other channels)
    for i in 1..nusers {
        if s.chance(70) {
            script.push((format!("n{}", i), "JOIN #pub0".into(), false));
        }
        if s.chance(35) {
            script.push((format!("n{}", i), "JOIN #pub1".into(), false));
        }
    }
    if s.chance(50) {
        script.push(("n1".into(), "TOPIC #pub0 :public topic".into(), false));
    }
    if obs_kind == "member-elsewhere" {
        script.push((obs.clone(), "JOIN #obs".into(), false));
        if s.chance(50) {
            script.push((obs.clone(), "JOIN #pub1".into(), false));
        }
    }
    if obs_kind == "operator" {
        script.push((obs.clone(), "OPER op0 operpw0".into(), false));
    }
    let hidden_kind;
    let mut queries: Vec<String> = vec![];
    if secret_case {
        hidden_kind = "secret-channel".to_string();
        let sec = ["#sec", "&sec"][s.pick(2)];
        let mut first = true;
        let mut members = vec![];
        for i in 1..nusers {
            if first || s.chance(55) {
                script.push((format!("n{}", i), format!("JOIN {}", sec), true));
                if first {
                    script.push((format!("n{}", i), format!("MODE {} +s", sec), true));
                    first = false;
                }
                members.push(format!("n{}", i));
            }
        }
        // sometimes the hidden channel is crowded (reply chunking: 20 names per 353, 30 channels
        // per 319): extra members that exist in both worlds but join the channel only in W1
        if s.chance(25) {
            let extra = 18 + s.pick(30);
            for k in 0..extra {
                let n = format!("x{}", k);
                nicks.push(n.clone());
                script.push((n.clone(), format!("JOIN {}", sec), true));
                members.push(n);
            }
        }
        if s.chance(60) {
            script.push((members[0].clone(), format!("TOPIC {} :secret plans", sec), true));
        }
        if s.chance(30) {
            script.push((members[0].clone(), format!("MODE {} +k k1", sec), true));
        }
        if members.len() > 1 && s.chance(40) {
            script.push((members[0].clone(), format!("MODE {} +v {}", sec, members[1]), true));
        }
        let m0 = members[s.pick(members.len())].clone();
        let all = [
            "LIST".to_string(),
            format!("LIST {}", sec),
            format!("LIST #pub0,{}", sec),
            format!("LIST {},#pub0,#pub1", sec),
            format!("NAMES {},#pub0", sec),
            format!("LIST {},#nonexistent", sec),
            "NAMES".to_string(),
            format!("NAMES {}", sec),
            format!("NAMES #pub0,{}", sec),
            format!("NAMES {},#nonexistent", sec),
            format!("WHO {}", sec),
            format!("WHO {}", m0),
            "WHO *".to_string(),
            format!("WHO {}*", &sec[..2]),
            format!("WHO *{}*", &m0),
            format!("WHOIS {}", m0),
            format!("WHOIS {}", members.join(",")),
            "WHOIS n*".to_string(),
            format!("WHOIS n?,{}", m0),
            format!("TOPIC {}", sec),
            format!("MODE {}", sec),
        ];
        let nq = 4 + s.pick(6);
        for _ in 0..nq {
            queries.push(all[s.pick(all.len() - 2)].clone());
        }
        queries.push(format!("PRIVMSG {} :can you hear me", sec));
        queries.push(format!("NOTICE {} :can you hear me", sec));
    } else {
        hidden_kind = "invisible-user".to_string();
        let h = "nh".to_string();
        nicks.push(h.clone());
        // sometimes the hidden user is a user from the configuration (it has +r): nothing of that
        // may show either
        if s.chance(30) {
            cfg.users.push(crate::cfgspec::UserSpec { name: "unh".into(), nick: "nh".into(), password: None, mask: None });
        }
        script.push((h.clone(), "MODE nh +i".into(), true));
        // joins channels the observer is not in
        let mut chans = vec![];
        if s.chance(70) {
            chans.push("#pub0");
        }
        if s.chance(40) {
            chans.push("#hid");
        }
        if obs_kind != "member-elsewhere" && s.chance(30) {
            chans.push("#pub1");
        }
        for ch in &chans {
            script.push((h.clone(), format!("JOIN {}", ch), true));
        }
        // sometimes the observer used to share #pub0 with the hidden user and has been kicked
        // out of it / has left it again: it is an outsider once more
        if chans.contains(&"#pub0") && obs_kind != "member-elsewhere" && s.chance(35) {
            script.insert(0, ("n1".into(), "JOIN #pub0".into(), false));
            script.push((obs.clone(), "JOIN #pub0".into(), false));
            if s.chance(60) {
                script.push(("n1".into(), format!("KICK #pub0 {} :out again", obs), false));
            } else {
                script.push((obs.clone(), "PART #pub0".into(), false));
            }
        }
        // sometimes there is a channel from the configuration which the observer has been the only
        // (hence last) member of and has left again; the hidden user sits there now: the observer
        // shares nothing with it
        if s.chance(25) {
            cfg.channels.push(crate::cfgspec::ChanSpec { name: "#cfgp".into(), flags: ["", "n", "nt"][s.pick(3)].into(), ..Default::default() });
            script.insert(0, (obs.clone(), "JOIN #cfgp".into(), false));
            script.insert(1, (obs.clone(), ["PART #cfgp", "PART #cfgp :bye"][s.pick(2)].into(), false));
            script.push((h.clone(), "JOIN #cfgp".into(), true));
        }
        if s.chance(30) {
            script.push((h.clone(), "AWAY :hidden away".into(), true));
        }
        // sometimes #pub0 is crowded in both worlds (more members than one 353 line holds): the shape
        // of the NAMES reply must not depend on the hidden member either
        // (only where #pub0 has a visible founder in both worlds)
        let visible_founder = script.iter().any(|(n, l, h)| !*h && l == "JOIN #pub0" && *n != obs);
        if chans.contains(&"#pub0") && visible_founder && s.chance(30) {
            let extra = 19 + s.pick(30);
            for k in 0..extra {
                let n = format!("y{}", k);
                nicks.insert(nicks.len() - 1, n.clone());
                // (they come last: who founded #pub0 and who may kick whom stays as it was)
                script.push((n, "JOIN #pub0".into(), false));
            }
        }
        // things the hidden user does afterwards that must leave its +i alone
        if s.chance(40) {
            let l = ["OPER op0 operpw0", "OPER op0 wrong", "MODE nh +w", "MODE nh -w+w", "CAP REQ :multi-prefix", "CAP END", "MODE nh +i", "MODE nh -o", "AWAY"][s.pick(9)];
            script.push((h.clone(), l.into(), true));
        }
        let all = [
            "WHO nh".to_string(),
            "WHO *".to_string(),
            "WHO n*".to_string(),
            "WHO *!*@10.0.0.*".to_string(),
            "WHO *Real*".to_string(),
            "WHO #pub0".to_string(),
            "WHO #hid".to_string(),
            "WHO #cfgp".to_string(),
            "NAMES #cfgp".to_string(),
            "NAMES".to_string(),
            "NAMES #pub0".to_string(),
            "NAMES #hid".to_string(),
            "NAMES #pub0,#hid,#pub1".to_string(),
            "WHOIS nh".to_string(),
            "WHOIS n*".to_string(),
            "WHOIS n1,nh".to_string(),
            "WHOIS ?h".to_string(),
        ];
        let nq = 4 + s.pick(6);
        for _ in 0..nq {
            queries.push(all[s.pick(all.len())].clone());
        }
    }
    (cfg, script, nicks, hidden_kind, obs_kind, queries)
}

fn query_form(q: &str) -> String {
    let mut it = q.split(' ');
    let v = it.next().unwrap_or("");
    let a = it.next().unwrap_or("");
    let form = if a.is_empty() {
        "noarg"
    } else if a.contains(',') {
        "list"
    } else if a.contains('*') || a.contains('?') {
        "mask"
    } else {
        "name"
    };
    format!("{}:{}", v, form)
}

// In a quarter of the secret-channel cases the channel is declared in the configuration
// (`secret = true`, possibly with topic and other flags) instead of being made secret by MODE.
fn hidden_channel_from_config(seeds: &[u16], script: &[(String, String, bool)]) -> Option<crate::cfgspec::ChanSpec> {
    if seeds.get(2).copied().unwrap_or(1) % 4 != 0 {
        return None;
    }
    let (_, line, _) = script.iter().find(|(_, l, h)| *h && l.starts_with("MODE ") && l.ends_with(" +s"))?;
    let name = line.split(' ').nth(1)?.to_string();
    let k = seeds.get(3).copied().unwrap_or(0);
    Some(crate::cfgspec::ChanSpec {
        name,
        topic: if k % 2 == 0 { Some("configured secret".into()) } else { None },
        flags: ["s", "sn", "st", "snt"][(k as usize / 2) % 4].to_string(),
        ..Default::default()
    })
}

pub fn check(c: &PairCase, st: &mut Stats) -> Result<(), Viol> {
    let (cfg, script, nicks, hidden_kind, obs_kind, queries) = build(&c.seeds);
    let seed = c.seeds.get(0).copied().unwrap_or(0) as u64;
    // the secret channel may come from the configuration file of the world that has it
    let mut cfg1 = cfg.clone();
    if let Some(ch) = hidden_channel_from_config(&c.seeds, &script) {
        cfg1.channels.push(ch);
    }
    let shared_user = c.seeds.get(1).copied().unwrap_or(0) % 4 == 0;
    let mut w1 = W::new(&cfg1, seed);
    let mut w0 = W::new(&cfg, seed);
    for n in &nicks {
        w1.register(n, shared_user);
        if !(hidden_kind == "invisible-user" && n == "nh") {
            w0.register(n, shared_user);
        }
    }
    let mut hidden_ops = 0;
    for (nick, line, hidden) in &script {
        w1.line(nick, line);
        if !*hidden {
            w0.line(nick, line);
        } else {
            hidden_ops += 1;
        }
    }
    st.count(&format!("kind.{}", hidden_kind));
    st.count(&format!("observer.{}", obs_kind));
    for q in &queries {
        let r1 = w1.line("n0", q);
        let r0 = w0.line("n0", q);
        let o1 = w1.conn["n0"];
        let o0 = w0.conn["n0"];
        let verb = q.split(' ').next().unwrap_or("");
        if verb == "PRIVMSG" || verb == "NOTICE" {
            // the observer cannot speak into the secret channel: nobody else receives anything
            for (cc, ls) in &r1 {
                if *cc != o1 {
                    return Err(Viol::new(
                        "C12.cannot_speak_into_secret",
                        format!("speak-into-secret:{}", verb),
                        format!("outsider's `{}` reached c{}: {:?}", q, cc, ls),
                    )
                    .with_transcript(w1.log.clone()));
                }
            }
            st.count("speak_probes");
            continue;
        }
        if verb == "NAMES" {
            // the shape of the reply (how many names each 353 line carries) is part of the answer
            let shape = |ls: Option<&Vec<String>>| -> Vec<usize> {
                let mut v: Vec<usize> = ls
                    .map(|x| x.iter().filter(|l| l.contains(" 353 ")).map(|l| l.rsplit(':').next().unwrap_or("").split(' ').filter(|t| !t.is_empty()).count()).collect())
                    .unwrap_or_default();
                v.sort();
                v
            };
            let (s1, s0) = (shape(r1.get(&o1)), shape(r0.get(&o0)));
            if s1 != s0 {
                return Err(Viol::new(
                    "C12.non_interference",
                    format!("{}:names-shape", hidden_kind),
                    format!("observer ({}) asks `{}`: with the hidden {} the 353 lines carry {:?} names, without it {:?}", obs_kind, q, hidden_kind, s1, s0),
                )
                .with_transcript(w1.log.iter().rev().take(30).rev().cloned().collect()));
            }
        }
        let mut n1 = norm::normalise(SERVER_NAME, r1.get(&o1).unwrap_or(&vec![])).items;
        let mut n0 = norm::normalise(SERVER_NAME, r0.get(&o0).unwrap_or(&vec![])).items;
        if hidden_kind == "invisible-user" {
            // member counts of LIST are not covered by the statement for invisible users
            for v in n1.iter_mut().chain(n0.iter_mut()) {
                if v[1] == "322" && v.len() > 3 {
                    v[3] = String::new();
                }
            }
        }
        n1.sort();
        n0.sort();
        st.count("queries_compared");
        if hidden_ops > 0 {
            st.nontrivial(format!("{}|{}|{}|h{}", hidden_kind, query_form(q), obs_kind, (hidden_ops.min(40) + 7) / 8), || {
                json!({"hidden": hidden_kind, "observer": obs_kind, "query": q,
                       "hidden_part": script.iter().filter(|x| x.2).map(|x| format!("{}: {}", x.0, x.1)).collect::<Vec<_>>()})
            });
        }
        if n1 != n0 {
            let mut t = vec![format!("== world with the hidden part ({}):", hidden_kind)];
            t.extend(w1.log.iter().rev().take(40).rev().cloned());
            t.push("== world without it:".to_string());
            t.extend(w0.log.iter().rev().take(25).rev().cloned());
            return Err(Viol::new(
                "C12.non_interference",
                format!("{}:{}", hidden_kind, query_form(q)),
                format!(
                    "observer ({}) asks `{}`: with the hidden {} it receives {:?}, without it {:?}",
                    obs_kind,
                    q,
                    hidden_kind,
                    n1.iter().map(norm::show).collect::<Vec<_>>(),
                    n0.iter().map(norm::show).collect::<Vec<_>>()
                ),
            )
            .with_transcript(t));
        }
    }
    crate::sim::set_in_sim(false);
    let _ = crate::sim::take_panics();
    Ok(())
}

fn strat() -> impl Strategy<Value = PairCase> {
    prop::collection::vec(any::<u16>(), 64).prop_map(|seeds| PairCase { seeds })
}

pub fn run(ctx: &RunCtx) -> Vec<PartOutcome> {
    let n = ctx.tier.pick(15_000, 600_000);
    vec![explore(ctx, "two_worlds", n, strat, check)]
}

pub fn replay(part: &str, input: &Value) -> Option<Result<Result<(), Viol>, String>> {
    match part {
        "two_worlds" => Some(replay_input::<PairCase>(input, check)),
        _ => None,
    }
}
