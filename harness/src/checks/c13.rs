// C13 part (a): tokenizer differential `Message::from_shared_str` vs the reference tokenizer,
// and command-field mapping `Command::from_message` vs the mapping computed from the reference
// tokens, on grammar-generated, byte-level and small-scope exhaustive lines.

use proptest::prelude::*;
use serde_derive::{Deserialize, Serialize};
use serde_json::{json, Value};
use std::panic::{catch_unwind, AssertUnwindSafe};

use crate::refparse::{self, RErr, RMsg};
use crate::runner::*;
use crate::sim;

#[derive(Clone, Debug, Serialize, Deserialize)]
pub struct LineCase {
    pub line: String,
}

const VERBS: &[&str] = &[
    "PRIVMSG", "NOTICE", "TOPIC", "PART", "KICK", "NICK", "INVITE", "WALLOPS", "AWAY", "JOIN",
    "PASS", "USER", "PING", "PONG", "OPER", "KILL", "MODE", "WHO", "QUIT", "FOO",
    // not commands: letters whose Unicode (not ASCII) case mapping lands on a command name
    "\u{131}SON", "PA\u{df}", "QU\u{131}T", "JO\u{131}N", "\u{17f}TATS", "PR\u{131}VMSG", "N\u{131}CK", "L\u{131}\u{17f}T",
];

// every verb the server implements (the statement: command names are ASCII, letter case ignored)
const KNOWN_VERBS: &[&str] = &[
    "CAP", "AUTHENTICATE", "PASS", "NICK", "USER", "PING", "PONG", "OPER", "QUIT", "JOIN", "PART", "TOPIC", "NAMES",
    "LIST", "INVITE", "KICK", "MOTD", "VERSION", "ADMIN", "CONNECT", "LUSERS", "TIME", "STATS", "LINKS", "HELP",
    "INFO", "MODE", "PRIVMSG", "NOTICE", "WHO", "WHOIS", "WHOWAS", "KILL", "REHASH", "RESTART", "SQUIT", "AWAY",
    "USERHOST", "WALLOPS", "ISON", "DIE",
];

const MIDDLES: &[&str] = &[
    "n0", "n1", "#c0", "#c1", "&l0", "#c0,#c1", "n0,n1", "a:b", "k:", "*!*@::1", "+b", "+o-v",
    "x", "~@#c0", "0", "irc.irc", "é", "a::b:c", "#c:0", "-", "+k",
    // white space that is not a blank does not separate parameters
    "a\u{a0}b", "#my\u{3000}room", "x\u{2003}y",
];

const TRAILS: &[&str] = &[
    "", "hello", "hello world", ":-) hi", " lead", "trail ", "a:b", ":", "::", "x  y", "é ß 日",
    ": : :", "#c0", "n1",
];

fn mangle_case(v: &str, bits: u16) -> String {
    v.chars()
        .enumerate()
        .map(|(i, c)| {
            if bits >> (i % 16) & 1 == 1 {
                c.to_ascii_lowercase()
            } else {
                c
            }
        })
        .collect()
}

fn grammar_line() -> impl Strategy<Value = LineCase> {
    (
        0usize..12,                                          // leading blanks (0 mostly, up to 6)
        prop::option::weighted(0.15, 0usize..4),             // source
        (0usize..VERBS.len(), any::<u16>(), 0u8..4),         // verb, case bits, mangle?
        prop::collection::vec((0usize..MIDDLES.len(), 1usize..4), 0..6),
        prop::option::weighted(0.7, (0usize..TRAILS.len(), 1usize..3)),
        0usize..6, // trailing blanks when no trailing parameter
    )
        .prop_map(|(lead, src, (vi, bits, mangle), mids, trail, tb)| {
            let mut l = String::new();
            for _ in 0..lead.saturating_sub(5) {
                l.push(' ');
            }
            if let Some(s) = src {
                l += [":n0!~u@10.0.0.1 ", ":n1 ", ":srv.x  ", ":a!b "][s];
            }
            if mangle == 0 {
                l += &mangle_case(VERBS[vi], bits);
            } else {
                l += VERBS[vi];
            }
            for (mi, sp) in mids {
                for _ in 0..(if sp == 3 { 2 } else { 1 }) {
                    l.push(' ');
                }
                l += MIDDLES[mi];
            }
            if let Some((ti, sp)) = trail {
                for _ in 0..sp {
                    l.push(' ');
                }
                l.push(':');
                l += TRAILS[ti];
            } else {
                for _ in 0..tb.saturating_sub(3) {
                    l.push(' ');
                }
            }
            LineCase { line: l }
        })
}

// full repertoire minus the separators the statement does not speak about (TAB, LF, VT, FF, CR)
fn byte_line() -> impl Strategy<Value = LineCase> {
    let alpha: Vec<char> = " ::  aAzZ09#&,!@~+-*?.\u{e9}\u{65e5}\u{1}\u{7f}PRIVMSGTOC".chars().collect();
    prop::collection::vec(0usize..alpha.len(), 0..40).prop_map(move |v| LineCase {
        line: v.into_iter().map(|i| alpha[i]).collect(),
    })
}

fn opt_dbg(o: Option<&String>) -> String {
    match o {
        Some(s) => format!("Some({:?})", s),
        None => "None".to_string(),
    }
}

fn split_dbg(s: &str) -> String {
    format!("{:?}", s.split(',').collect::<Vec<_>>())
}

// Expected `Debug` of `Command::from_message` computed from the *reference* tokens.  Only for
// verbs whose field mapping is fixed by the statement / RFC; `None` = not compared.
fn expected_command_debug(m: &RMsg) -> Option<String> {
    let p = &m.params;
    let v = m.command.to_ascii_uppercase();
    Some(match v.as_str() {
        "PRIVMSG" | "NOTICE" if p.len() >= 2 => format!(
            "{} {{ targets: {}, text: {:?} }}",
            v,
            split_dbg(&p[0]),
            p[1]
        ),
        "TOPIC" if !p.is_empty() => format!(
            "TOPIC {{ channel: {:?}, topic: {} }}",
            p[0],
            opt_dbg(p.get(1))
        ),
        "PART" if !p.is_empty() => format!(
            "PART {{ channels: {}, reason: {} }}",
            split_dbg(&p[0]),
            opt_dbg(p.get(1))
        ),
        "KICK" if p.len() >= 2 => format!(
            "KICK {{ channel: {:?}, users: {}, comment: {} }}",
            p[0],
            split_dbg(&p[1]),
            opt_dbg(p.get(2))
        ),
        "NICK" if !p.is_empty() => format!("NICK {{ nickname: {:?} }}", p[0]),
        "INVITE" if p.len() >= 2 => {
            format!("INVITE {{ nickname: {:?}, channel: {:?} }}", p[0], p[1])
        }
        "WALLOPS" if !p.is_empty() => format!("WALLOPS {{ text: {:?} }}", p[0]),
        "AWAY" => format!("AWAY {{ text: {} }}", opt_dbg(p.get(0))),
        "JOIN" if !p.is_empty() => format!(
            "JOIN {{ channels: {}, keys: {} }}",
            split_dbg(&p[0]),
            match p.get(1) {
                Some(k) => format!("Some({})", split_dbg(k)),
                None => "None".to_string(),
            }
        ),
        "PASS" if !p.is_empty() => format!("PASS {{ password: {:?} }}", p[0]),
        "USER" if p.len() >= 4 => format!(
            "USER {{ username: {:?}, hostname: {:?}, servername: {:?}, realname: {:?} }}",
            p[0], p[1], p[2], p[3]
        ),
        "PING" if !p.is_empty() => format!("PING {{ token: {:?} }}", p[0]),
        "PONG" if !p.is_empty() => format!("PONG {{ token: {:?} }}", p[0]),
        "OPER" if p.len() >= 2 => format!("OPER {{ name: {:?}, password: {:?} }}", p[0], p[1]),
        "KILL" if p.len() >= 2 => format!("KILL {{ nickname: {:?}, comment: {:?} }}", p[0], p[1]),
        "WHO" if !p.is_empty() => format!("WHO {{ mask: {:?} }}", p[0]),
        _ => return None,
    })
}

pub fn check_line(c: &LineCase, st: &mut Stats) -> Result<(), Viol> {
    let line = &c.line;
    let reference = refparse::parse(line);
    // inputs the statement is silent about are not judged (crash search only)
    let ambiguous = line.chars().any(|ch| matches!(ch, '\t' | '\n' | '\r' | '\u{b}' | '\u{c}'))
        || line.chars().next().map_or(false, |ch| ch != ' ' && ch.is_whitespace());
    sim::set_in_sim(true);
    let got = catch_unwind(AssertUnwindSafe(|| {
        match crate::Message::from_shared_str(line) {
            Ok(m) => {
                let md = format!("{:?}", m);
                let cd = match crate::Command::from_message(&m) {
                    Ok(cmd) => Some(format!("{:?}", cmd)),
                    Err(_) => None,
                };
                Ok((md, cd))
            }
            Err(e) => Err(format!("{:?}", e)),
        }
    }));
    sim::set_in_sim(false);
    let panics = sim::take_panics();
    let got = match got {
        Ok(g) => g,
        Err(_) => {
            return Err(Viol::new(
                "C13.parser_totality",
                "parser-panic",
                format!(
                    "parsing {:?} aborted: {}",
                    line,
                    panics.first().map(|p| format!("{} at {}", p.msg, p.loc)).unwrap_or_default()
                ),
            ))
        }
    };
    if ambiguous {
        st.count("ambiguous_not_judged");
        return Ok(());
    }
    // shape classification
    if let Ok(ref m) = reference {
        let colon_in_middle = {
            let last_is_trailing = line.contains(" :");
            let n = m.params.len();
            m.params
                .iter()
                .enumerate()
                .any(|(i, p)| p.contains(':') && !(last_is_trailing && i + 1 == n))
        };
        let blank_runs = line.trim_start_matches(' ').contains("  ");
        let empty_trailing = line.ends_with(" :");
        let mixed = m.command.chars().any(|c| c.is_ascii_lowercase())
            && m.command.chars().any(|c| c.is_ascii_uppercase());
        if colon_in_middle {
            st.count("colon_in_middle");
        }
        if m.params.len() >= 2 && (colon_in_middle || blank_runs || empty_trailing || mixed) {
            st.nontrivial(
                format!(
                    "{}|{}|{}{}{}{}",
                    m.command.to_ascii_uppercase(),
                    m.params.len().min(6),
                    colon_in_middle as u8,
                    blank_runs as u8,
                    empty_trailing as u8,
                    mixed as u8
                ),
                || json!({"line": line, "reference": refparse::debug_like_message(m)}),
            );
        }
    }
    match (&reference, &got) {
        (Err(RErr::Empty), Err(e)) if e == "Empty" => Ok(()),
        // a line without a command is rejected either way; which of the two rejections the
        // server reports for a source-only line is not defined by the statement
        (Err(RErr::NoCommand), Err(e)) if e == "NoCommand" || e == "WrongSource" => Ok(()),
        (Ok(m), Err(e)) if e == "WrongSource" => {
            // the statement does not define source validation; a client-supplied source that
            // the server rejects is answered with an error, never misread
            let _ = m;
            st.count("source_rejected_not_judged");
            Ok(())
        }
        (Ok(m), Ok((md, cd))) => {
            let exp = refparse::debug_like_message(m);
            if &exp != md {
                let shape = if m.params.iter().any(|p| p.contains(':')) { "colon" } else { "other" };
                return Err(Viol::new(
                    "C13.tokenizer",
                    format!("tokenizer-mismatch:{}", shape),
                    format!("line {:?}: server parsed {} but the grammar gives {}", line, md, exp),
                ));
            }
            if cd.is_some() && !KNOWN_VERBS.contains(&m.command.to_ascii_uppercase().as_str()) {
                return Err(Viol::new(
                    "C13.command_mapping",
                    "command-mapping:unknown-verb-accepted",
                    format!("line {:?}: {:?} is not a command but the server maps it to {}", line, m.command, cd.clone().unwrap_or_default()),
                ));
            }
            if let (Some(cd), Some(ecd)) = (cd, expected_command_debug(m)) {
                st.count("command_mapping_compared");
                if cd != &ecd {
                    return Err(Viol::new(
                        "C13.command_mapping",
                        format!("command-mapping:{}", m.command.to_ascii_uppercase()),
                        format!("line {:?}: server command {} but expected {}", line, cd, ecd),
                    ));
                }
            }
            Ok(())
        }
        (r, g) => Err(Viol::new(
            "C13.tokenizer",
            "tokenizer-accept-reject",
            format!("line {:?}: reference {:?} but server {:?}", line, r, g),
        )),
    }
}

const EX_ALPHA: &[char] = &[' ', ':', 'a', ',', '#'];

fn nth_string(alpha: &[char], mut idx: u64, max_len: u32) -> String {
    let k = alpha.len() as u64;
    let mut len = 0u32;
    let mut block = 1u64;
    while len <= max_len {
        if idx < block {
            break;
        }
        idx -= block;
        block *= k;
        len += 1;
    }
    let mut v = vec![alpha[0]; len as usize];
    for i in (0..len as usize).rev() {
        v[i] = alpha[(idx % k) as usize];
        idx /= k;
    }
    v.into_iter().collect()
}

pub fn run_pure(ctx: &RunCtx) -> Vec<PartOutcome> {
    let mut parts = vec![];
    let n = ctx.tier.pick(600_000, 6_000_000);
    parts.push(explore(ctx, "tok_grammar", n * 3 / 4, grammar_line, check_line));
    parts.push(explore(ctx, "tok_bytes", n / 4, byte_line, check_line));
    let l = ctx.tier.pick(8u32, 10u32);
    let total: u64 = (0..=l).map(|i| 5u64.pow(i)).sum();
    parts.push(enumerate(
        ctx,
        "tok_exhaustive",
        total,
        |i| LineCase {
            line: nth_string(EX_ALPHA, i, l),
        },
        check_line,
    ));
    if ctx.tier == Tier::Thorough {
        parts.push(crate::fuzzdec::libfuzzer_part(ctx, "parse", 3_000_000, 600));
    }
    parts
}

pub fn replay(part: &str, input: &Value) -> Option<Result<Result<(), Viol>, String>> {
    match part {
        "tok_grammar" | "tok_bytes" | "tok_exhaustive" => Some(replay_input::<LineCase>(input, check_line)),
        "libfuzzer_parse" => Some(crate::fuzzdec::replay_bytes_case(input)),
        _ => None,
    }
}
