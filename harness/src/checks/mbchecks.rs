// Instances of the generic model-based check for C01, C07, C08, C09, C10, C11, C15, C16, C19.

use serde_json::Value;
use std::collections::BTreeSet;

use crate::cfgspec::{CfgSpec, ChanSpec, OperSpec};
use crate::checks::mb::*;
use crate::engine::{Disc, StepOut};
use crate::gen::{derive_mask, Profile, K, S};
use crate::runner::*;
use crate::scenario::*;

fn not_panic(d: &Disc) -> bool {
    !matches!(d, Disc::Panic { .. } | Disc::UnexpectedClose { .. } | Disc::Framing { .. } | Disc::Malformed { .. })
}

// in a probe step only lines with these numerics belong to the property
fn probe_codes(d: &Disc, out: &StepOut, codes: &[&str]) -> bool {
    !out.is_probe || d.is_numeric(codes)
}

fn src_of(i: usize) -> String {
    format!("n{}!~u{}@10.0.0.{}", i, i, i + 1)
}

// n0 creates `ch`, n1..n(k-1) join, n0 hands out ranks according to seed bits
fn rank_setup(s: &mut S, ch: &str, users: usize, setup: &mut Vec<(String, String)>) {
    setup.push(("n0".into(), format!("JOIN {}", ch)));
    for i in 1..users {
        if s.chance(85) {
            setup.push((format!("n{}", i), format!("JOIN {}", ch)));
            let bits = s.pick(32);
            // most members get zero or one rank, some get combinations
            let letters: Vec<char> = match bits {
                0..=7 => vec![],
                8..=11 => vec!['v'],
                12..=15 => vec!['h'],
                16..=20 => vec!['o'],
                21..=23 => vec!['a'],
                24 => vec!['q'],
                25 => vec!['o', 'v'],
                26 => vec!['h', 'v'],
                27 => vec!['a', 'o'],
                28 => vec!['q', 'a'],
                29 => vec!['a', 'h'],
                30 => vec!['q', 'o', 'v'],
                _ => vec!['a', 'o', 'h', 'v'],
            };
            for l in letters {
                setup.push(("n0".into(), format!("MODE {} +{} n{}", ch, l, i)));
            }
        }
    }
    // sometimes the founder gives up a part of its own rank
    match s.pick(8) {
        0 => setup.push(("n0".into(), format!("MODE {} -o n0", ch))),
        1 => setup.push(("n0".into(), format!("MODE {} -q n0", ch))),
        _ => {}
    }
}

// Configuration variety shared by the model-based checks: in about a third of the cases the
// server also has default user modes, a channel from the configuration (rank lists that overlap
// and name members, connected non-members and a nick that never connects) and a join quota.
// None of it is the subject of the check that uses it; all of it must leave the subject alone.
pub fn enrich(mut b: Built, s: &mut S) -> Built {
    if !s.chance(30) {
        return b;
    }
    if b.cfg.default_modes.is_empty() && s.chance(50) {
        b.cfg.default_modes = ["i", "w", "iw", "r", "rw"][s.pick(5)].to_string();
    }
    if b.cfg.channels.is_empty() && s.chance(60) {
        let mut ch = ChanSpec { name: "&cfg".into(), ..Default::default() };
        if s.chance(50) {
            ch.topic = Some("from the file".into());
        }
        ch.flags = ["", "n", "nt", "m", "t"][s.pick(5)].to_string();
        ch.founders = vec!["n3".into()];
        ch.operators = vec!["n1".into(), "ghost".into(), "n3".into()];
        ch.half_operators = vec!["n2".into()];
        ch.voices = vec!["n2".into(), "n1".into(), "phantom".into()];
        ch.protecteds = vec!["n2".into(), "n0".into()];
        // lists from the file: masks without a setter record, which MODE must list and remove
        // like any other
        if s.chance(50) {
            ch.ban.push(derive_mask(&src_of(1 + s.pick(3)), s));
        }
        if s.chance(20) {
            ch.except.push(derive_mask(&src_of(1 + s.pick(3)), s));
        }
        if s.chance(15) {
            ch.invex.push(derive_mask(&src_of(1 + s.pick(3)), s));
        }
        b.cfg.channels.push(ch);
        b.prof.chans.push("&cfg".into());
        for i in 0..b.prelude_users {
            if s.chance(50) {
                b.setup.push((format!("n{}", i), "JOIN &cfg".into()));
            }
        }
    }
    if b.cfg.max_joins.is_none() && s.chance(20) {
        b.cfg.max_joins = Some(3 + s.pick(3));
    }
    // one of the prelude users (the one logging in as `u2`) is a user from [[users]]: registered
    // mode, and a source without the `~` - for as long as the session lasts, whatever its nick
    if b.cfg.users.is_empty() && s.chance(40) {
        b.cfg.users.push(crate::cfgspec::UserSpec { name: "u2".into(), nick: "cfgnick".into(), password: None, mask: None });
    }
    b
}

// ------------------------------------------------------------------------------------- C01
fn c01_build(cfg: &[u16]) -> Built {
    let mut s = S::new(cfg);
    s.raw();
    let users = 4 + s.pick(3);
    let mut setup = vec![];
    rank_setup(&mut s, "#c0", users, &mut setup);
    let mut c = CfgSpec::default();
    match s.pick(10) {
        0..=4 => rank_setup(&mut s, "&l0", users.min(4), &mut setup),
        5..=7 => {
            // a channel from the configuration whose rank lists name connected non-members, members
            // and a nick that never connects: only members may ever receive a status-addressed copy
            let mut ch = ChanSpec { name: "&l0".into(), flags: ["", "n", "m", "nt"][s.pick(4)].into(), ..Default::default() };
            ch.founders = vec!["n0".into()];
            ch.operators = vec!["n1".into(), "ghost".into(), format!("n{}", users - 1)];
            ch.half_operators = vec!["n2".into()];
            ch.voices = vec!["n3".into(), "n1".into(), "phantom".into()];
            // any of the lists may be absent from the file (a rank is then first granted by MODE)
            for k in 0..4 {
                if s.chance(35) {
                    match k {
                        0 => ch.operators.clear(),
                        1 => ch.half_operators.clear(),
                        2 => ch.voices.clear(),
                        _ => ch.protecteds = vec!["n1".into()],
                    }
                }
            }
            c.channels.push(ch);
            for i in 0..users {
                if i == 0 || s.chance(55) {
                    setup.push((format!("n{}", i), "JOIN &l0".into()));
                }
            }
            // ranks granted by MODE on top of (or instead of) the configured ones
            for i in 1..users {
                if s.chance(40) {
                    setup.push(("n0".into(), format!("MODE &l0 +{} n{}", ['o', 'h', 'v', 'a', 'o'][s.pick(5)], i)));
                }
            }
        }
        _ => {}
    }
    let prof = Profile::base().with(&[
        (K::Privmsg, 26),
        (K::Notice, 12),
        (K::Join, 8),
        (K::Part, 6),
        (K::Kick, 5),
        (K::Nick, 8),
        (K::ModeChan, 12),
        (K::Drop, 4),
        (K::Quit, 2),
        (K::NewUser, 4),
        (K::CapPost, 4),
    ]);
    // the sender logging in as `u2` may be a user from [[users]] (a source without `~`, which the
    // copies must carry also after a change of nick)
    if s.chance(15) {
        c.users.push(crate::cfgspec::UserSpec { name: "u2".into(), nick: "cfgnick".into(), password: None, mask: None });
    }
    Built { cfg: c, prof, prelude_users: users, setup }
}

fn recipients(out: &StepOut, verb: &str, target: &str) -> usize {
    out.obs
        .values()
        .map(|ls| ls.iter().filter(|l| l[0] != "S" && l[1] == verb && l.get(2).map(|t| t.as_str()) == Some(target)).count())
        .sum()
}

// acceptance of a target is C10's business: C01 judges the audience of accepted targets
fn c01_owns(d: &Disc, out: &StepOut, _t: &Trace) -> bool {
    if !d.is_relay(&["PRIVMSG", "NOTICE"]) {
        return false;
    }
    let l = d.line().unwrap();
    let target = l.get(2).cloned().unwrap_or_default();
    let observed = recipients(out, &l[1], &target);
    match out.exp.send_targets.iter().find(|(t, _, _)| *t == target) {
        // accepted by the model: wrong / duplicate / missing copies.  If nobody got anything it is a
        // disagreement about acceptance (C10) when the sender was told so with an error numeric for
        // that target - and a silently lost message (ours) when it was told nothing
        Some((_, true, _)) => {
            observed > 0
                || !out.actor.and_then(|a| out.obs.get(&a)).map_or(false, |ls| ls.iter().any(|x| x[0] == "S" && x[1].starts_with('4') && x.iter().skip(2).any(|y| *y == target)))
        }
        Some((_, false, _)) => false,       // model refuses, server delivers: acceptance (C10)
        None => true,                       // a copy for a target that was never addressed
    }
}

fn c01_nontrivial(t: &Trace) -> Option<String> {
    let mut sends: BTreeSet<String> = BTreeSet::new();
    for tag in &t.tags {
        if let Some(r) = tag.strip_prefix("send:chan:ok:") {
            let parts: Vec<&str> = r.split(':').collect();
            if parts.len() == 3 && parts[2] != "0" {
                sends.insert(format!("{}/{}", parts[1], parts[2]));
            }
        }
        if tag == "send:nick:ok" {
            sends.insert("nick".into());
        }
    }
    let churn = [("part:done", 'p'), ("kick:done", 'k'), ("nick:changed", 'n'), ("quit", 'q'), ("cmode:some-applied", 'm')]
        .iter()
        .filter(|(p, _)| t.has(p))
        .map(|(_, c)| *c)
        .collect::<String>();
    if !sends.is_empty() && !churn.is_empty() {
        Some(format!("{}|{}", sends.into_iter().take(3).collect::<Vec<_>>().join(","), churn))
    } else {
        None
    }
}

pub const C01: MbSpec = MbSpec {
    id: "C01",
    ncfg: 24,
    max_ops: 30,
    build: c01_build,
    owns: c01_owns,
    probe_level: 0,
    nontrivial: c01_nontrivial,
    extra: None,
};

// ------------------------------------------------------------------------------------- C07
fn c07_build(cfg: &[u16]) -> Built {
    let mut s = S::new(cfg);
    s.raw();
    let users = 4 + s.pick(2);
    let mut c = CfgSpec::default();
    c.max_joins = [None, None, Some(1), Some(2), Some(3)][s.pick(5)];
    let mut setup: Vec<(String, String)> = vec![];
    // the second channel has a mixed-case name in a third of the cases (names are case-sensitive,
    // also where invitations and lists are kept)
    let second: &str = if s.chance(35) { "#Mixed" } else { "#c1" };
    setup.push(("n0".into(), "JOIN #c0".into()));
    if c.max_joins != Some(1) {
        setup.push(("n0".into(), format!("JOIN {}", second)));
    }
    for ch in ["#c0", second] {
        if ch == second && c.max_joins == Some(1) {
            break;
        }
        let heavy = ch == "#c0";
        if s.chance(if heavy { 55 } else { 25 }) {
            setup.push(("n0".into(), format!("MODE {} +k {}", ch, ["k1", "k2"][s.pick(2)])));
        }
        if s.chance(if heavy { 45 } else { 20 }) {
            // boundary values too: 0 admits nobody, `users` never binds
            setup.push(("n0".into(), format!("MODE {} +l {}", ch, [1, 2, 3, 0, 1, 2, users][s.pick(7)])));
        }
        if s.chance(if heavy { 45 } else { 20 }) {
            setup.push(("n0".into(), format!("MODE {} +i", ch)));
        }
        let nb = if heavy { s.pick(3) } else { s.pick(2) };
        for _ in 0..nb {
            let who = 1 + s.pick(users - 1);
            setup.push(("n0".into(), format!("MODE {} +b {}", ch, derive_mask(&src_of(who), &mut s))));
        }
        if nb > 0 && s.chance(50) {
            let who = 1 + s.pick(users - 1);
            setup.push(("n0".into(), format!("MODE {} +e {}", ch, derive_mask(&src_of(who), &mut s))));
        }
        if s.chance(30) {
            let who = 1 + s.pick(users - 1);
            setup.push(("n0".into(), format!("MODE {} +I {}", ch, derive_mask(&src_of(who), &mut s))));
        }
        if s.chance(35) {
            let who = 1 + s.pick(users - 1);
            setup.push(("n0".into(), format!("INVITE n{} {}", who, ch)));
        }
    }
    let mut prof = Profile::base().with(&[
        (K::Join, 42),
        (K::Part, 9),
        (K::Invite, 8),
        (K::ModeChan, 14),
        (K::Nick, 5),
        (K::NewUser, 4),
        (K::Drop, 3),
        (K::Kick, 4),
        (K::CapPost, 2),
    ]);
    // a channel from the configuration that somebody has visited and left empty again: it goes on
    // existing, and it does not go on counting against the visitor's quota
    if c.max_joins.is_some() && s.chance(30) {
        c.channels.push(ChanSpec { name: "#pre0".into(), flags: ["", "n", "nt"][s.pick(3)].into(), ..Default::default() });
        prof.chans.push("#pre0".into());
        let who = 1 + s.pick(users - 1);
        setup.push((format!("n{}", who), "JOIN #pre0".into()));
        setup.push((format!("n{}", who), "PART #pre0".into()));
    }
    enrich(Built { cfg: c, prof, prelude_users: users, setup }, &mut s)
}

fn c07_owns(d: &Disc, out: &StepOut, _t: &Trace) -> bool {
    out.ctx == "JOIN" && not_panic(d) && probe_codes(d, out, &["353", "352", "319", "322"])
}

fn multi_constraint(cons: &str) -> bool {
    let kinds = [cons.contains('k'), cons.contains('b'), cons.contains('i'), cons.contains('l'), cons.contains('j')];
    kinds.iter().filter(|x| **x).count() >= 2
}

fn c07_nontrivial(t: &Trace) -> Option<String> {
    let mut sigs: BTreeSet<String> = BTreeSet::new();
    for tag in &t.tags {
        if let Some(r) = tag.strip_prefix("join:accept:") {
            if multi_constraint(r) {
                sigs.insert(format!("A:{}", r));
            }
        } else if let Some(r) = tag.strip_prefix("join:refused:") {
            let cons = r.split(':').next().unwrap_or("");
            if multi_constraint(cons) {
                sigs.insert(format!("R:{}", r));
            }
        }
    }
    if sigs.is_empty() {
        None
    } else {
        Some(sigs.into_iter().take(2).collect::<Vec<_>>().join(","))
    }
}

// An invitation is good for ONE admission: right after a JOIN that used one up (whether the
// channel needed it or not, whether the JOIN created the channel or not) the user leaves, the
// channel is (re-)made invite-only by somebody else, and the user's next JOIN must be refused.
fn invitation_used_up(eng: &mut crate::engine::Engine, xs: &mut ExtraState, outs: &[StepOut], id: &'static str) -> Result<(), Viol> {
    let now: BTreeSet<(String, String)> = eng.model.users.values().flat_map(|u| u.invited.iter().map(move |c| (u.nick.clone(), c.clone()))).collect();
    let prev = std::mem::replace(&mut xs.invited, now.clone());
    let Some(last) = outs.last() else { return Ok(()) };
    if !last.sent.starts_with("JOIN ") {
        return Ok(());
    }
    let Some(actor) = last.actor else { return Ok(()) };
    let Some(nick) = eng.model.nick_of(actor).map(|x| x.to_string()) else { return Ok(()) };
    let used: Vec<String> = prev.difference(&now).filter(|(n, _)| *n == nick).map(|(_, c)| c.clone()).collect();
    for ch in used {
        if !eng.model.chans.get(&ch).map_or(false, |c| c.members.contains_key(&nick)) {
            continue;
        }
        let mut lines: Vec<(String, String)> = vec![(nick.clone(), format!("PART {}", ch))];
        let others: Vec<String> = eng.model.chans[&ch].members.iter().filter(|(n, r)| **n != nick && r.half_plus()).map(|(n, _)| n.clone()).collect();
        if let Some(o) = others.first() {
            lines.push((o.clone(), format!("MODE {} +i", ch)));
        } else if eng.model.chans[&ch].members.len() == 1 && !eng.model.chans[&ch].predefined {
            // the channel dies with the PART: somebody else re-creates it
            let Some(x) = eng.model.users.keys().find(|n| **n != nick).cloned() else { continue };
            lines.push((x.clone(), format!("JOIN {}", ch)));
            lines.push((x, format!("MODE {} +i", ch)));
        } else {
            continue;
        }
        lines.push((nick.clone(), format!("JOIN {}", ch)));
        for (n, line) in lines {
            let Some(c) = eng.model.conn_of(&n) else { break };
            let mut o = eng.line(c, &line);
            o.ctx = "JOIN".into();
            *xs.counters.entry("invitation_used_up_probes".into()).or_insert(0) += 1;
            let owns_all = |d: &Disc, _o: &StepOut| not_panic(d);
            let pol = Policy { id, owns: &owns_all };
            if let Verdict::Violation(mut v) = judge(&pol, eng, &o) {
                v.explanation = format!("after `{}` used up {}'s invitation to {}: {}", last.sent, nick, ch, v.explanation);
                v.signature = format!("invitation-once:{}", v.signature);
                return Err(v);
            }
        }
        xs.invited = eng.model.users.values().flat_map(|u| u.invited.iter().map(move |c| (u.nick.clone(), c.clone()))).collect();
    }
    Ok(())
}

fn c07_extra(eng: &mut crate::engine::Engine, xs: &mut ExtraState, outs: &[StepOut]) -> Result<(), Viol> {
    invitation_survives_refusal(eng, xs, outs, "C07")?;
    invitation_used_up(eng, xs, outs, "C07")?;
    // after every MODE on a channel - accepted or refused - the admission rules are what the model
    // says they are: two outsiders try to join (and leave again if they got in)
    let Some(last) = outs.last() else { return Ok(()) };
    if !(last.sent.starts_with("MODE #") || last.sent.starts_with("MODE &")) {
        return Ok(());
    }
    let ch = last.sent.split(' ').nth(1).unwrap_or("").to_string();
    let Some(co) = eng.model.chans.get(&ch).cloned() else { return Ok(()) };
    let outsiders: Vec<String> = eng.model.users.keys().filter(|n| !co.members.contains_key(*n)).take(2).cloned().collect();
    for o in outsiders {
        let Some(c) = eng.model.conn_of(&o) else { continue };
        let key = co.key.clone().filter(|_| xs.counters.get("admission_probes").copied().unwrap_or(0) % 3 != 0);
        let line = match key {
            Some(k) => format!("JOIN {} {}", ch, k),
            None => format!("JOIN {}", ch),
        };
        let mut out = eng.line(c, &line);
        out.ctx = "JOIN".into();
        *xs.counters.entry("admission_probes".into()).or_insert(0) += 1;
        let owns_all = |d: &Disc, _o: &StepOut| not_panic(d);
        let pol = Policy { id: "C07", owns: &owns_all };
        if let Verdict::Violation(mut v) = judge(&pol, eng, &out) {
            v.explanation = format!("admission probe after `{}`: {}", last.sent, v.explanation);
            v.signature = format!("admission:{}", v.signature);
            return Err(v);
        }
        if eng.model.chans.get(&ch).map_or(false, |c2| c2.members.contains_key(&o)) {
            let mut out = eng.line(c, &format!("PART {}", ch));
            out.ctx = "JOIN".into();
            if let Verdict::Violation(v) = judge(&pol, eng, &out) {
                return Err(v);
            }
        }
    }
    xs.invited = eng.model.users.values().flat_map(|u| u.invited.iter().map(move |c| (u.nick.clone(), c.clone()))).collect();
    Ok(())
}

// An invitation is used up by the JOIN it admits, not by a JOIN that is refused for another reason
// first: right after an accepted INVITE to an invite-only channel that also has a key or is full,
// the invited user knocks with the wrong key / at the full channel, the obstacle is lifted by an
// operator of the channel, and the user comes again.
fn invitation_survives_refusal(eng: &mut crate::engine::Engine, xs: &mut ExtraState, outs: &[StepOut], id: &'static str) -> Result<(), Viol> {
    let Some(last) = outs.last() else { return Ok(()) };
    if !last.sent.starts_with("INVITE ") || xs.counters.get("invitation_survives_probes").copied().unwrap_or(0) >= 2 {
        return Ok(());
    }
    let now: BTreeSet<(String, String)> = eng.model.users.values().flat_map(|u| u.invited.iter().map(move |c| (u.nick.clone(), c.clone()))).collect();
    let fresh: Vec<(String, String)> = now.difference(&xs.invited).cloned().collect();
    for (nick, ch) in fresh {
        let Some(co) = eng.model.chans.get(&ch).cloned() else { continue };
        if !co.has('i') || co.members.contains_key(&nick) {
            continue;
        }
        let full = co.limit.map_or(false, |l| co.members.len() >= l);
        if co.key.is_none() && !full {
            continue;
        }
        let Some(op) = co.members.iter().find(|(_, r)| r.half_plus()).map(|(n, _)| n.clone()) else { continue };
        let mut lines: Vec<(String, String)> = vec![];
        match &co.key {
            Some(_) => lines.push((nick.clone(), format!("JOIN {} not-the-key", ch))),
            None => lines.push((nick.clone(), format!("JOIN {}", ch))),
        }
        if full {
            lines.push((op.clone(), format!("MODE {} -l", ch)));
        }
        lines.push((nick.clone(), match &co.key {
            Some(k) => format!("JOIN {} {}", ch, k),
            None => format!("JOIN {}", ch),
        }));
        *xs.counters.entry("invitation_survives_probes".into()).or_insert(0) += 1;
        for (n, line) in lines {
            let Some(c) = eng.model.conn_of(&n) else { break };
            let mut o = eng.line(c, &line);
            o.ctx = "JOIN".into();
            let owns_all = |d: &Disc, _o: &StepOut| not_panic(d);
            let pol = Policy { id, owns: &owns_all };
            if let Verdict::Violation(mut v) = judge(&pol, eng, &o) {
                v.explanation = format!("after `{}` (channel {} is +i and {}): {}", last.sent, ch, if full { "full" } else { "keyed" }, v.explanation);
                v.signature = format!("invitation-survives-refusal:{}", v.signature);
                return Err(v);
            }
        }
    }
    Ok(())
}

fn c09_extra(eng: &mut crate::engine::Engine, xs: &mut ExtraState, outs: &[StepOut]) -> Result<(), Viol> {
    invitation_survives_refusal(eng, xs, outs, "C09")?;
    invitation_used_up(eng, xs, outs, "C09")
}

pub const C07: MbSpec = MbSpec {
    id: "C07",
    ncfg: 40,
    max_ops: 30,
    build: c07_build,
    owns: c07_owns,
    probe_level: 1,
    nontrivial: c07_nontrivial,
    extra: Some(c07_extra),
};

// ------------------------------------------------------------------------------------- C08
fn c08_build(cfg: &[u16]) -> Built {
    let mut s = S::new(cfg);
    s.raw();
    let users = 5 + s.pick(2);
    let mut setup = vec![];
    rank_setup(&mut s, "#c0", users, &mut setup);
    let prof = Profile::base().with(&[
        (K::ModeChan, 56),
        (K::Join, 6),
        (K::Part, 3),
        (K::Kick, 8),
        (K::Topic, 4),
        (K::Privmsg, 5),
        (K::Invite, 4),
        (K::Nick, 9),
        (K::NewUser, 3),
        (K::CapPost, 2),
    ]);
    enrich(Built { cfg: CfgSpec::default(), prof, prelude_users: users, setup }, &mut s)
}

fn c08_owns(d: &Disc, out: &StepOut, _t: &Trace) -> bool {
    // the MODE command itself and its probes, plus the enforcement of +t by a later TOPIC
    (out.ctx == "MODE#" && not_panic(d) && probe_codes(d, out, &["324", "353", "352", "319", "367", "348", "346"]))
        || (out.ctx == "TOPIC" && !out.is_probe && (d.is_relay(&["TOPIC"]) || d.is_numeric(&["482"])))
        || (out.ctx == "KICK" && !out.is_probe && (d.is_relay(&["KICK"]) || d.is_numeric(&["482", "972"])))
}

fn c08_nontrivial(t: &Trace) -> Option<String> {
    let mut sigs: BTreeSet<String> = BTreeSet::new();
    for tag in &t.tags {
        if let Some(r) = tag.strip_prefix("cmodesig:") {
            let p: Vec<&str> = r.split(':').collect();
            if p.len() == 3 && ((p[2] != "0" && !p[1].is_empty()) || p[1].contains(|c| "qaoh".contains(c))) {
                sigs.insert(r.to_string());
            }
        }
    }
    if sigs.is_empty() {
        None
    } else {
        Some(sigs.into_iter().take(2).collect::<Vec<_>>().join(","))
    }
}

// One enforcement probe per changed aspect: right after an accepted mode change the new state
// must already govern JOIN / PRIVMSG / TOPIC / INVITE (design section 7, C08).
fn c08_enforce(eng: &mut crate::engine::Engine, xs: &mut ExtraState, outs: &[StepOut]) -> Result<(), Viol> {
    let Some(last) = outs.last() else { return Ok(()) };
    if !last.sent.starts_with("MODE #") && !last.sent.starts_with("MODE &") {
        return Ok(());
    }
    let Some(sig) = last.exp.tags.iter().find(|t| t.starts_with("cmodesig:")) else { return Ok(()) };
    let applied = sig.split(':').nth(2).unwrap_or("").to_string();
    if applied.is_empty() {
        return Ok(());
    }
    let ch = last.sent.split(' ').nth(1).unwrap_or("").to_string();
    let Some(co) = eng.model.chans.get(&ch).cloned() else { return Ok(()) };
    let plain_member = co.members.iter().find(|(_, r)| !r.any()).map(|(n, _)| n.clone());
    let outsider = eng.model.users.keys().find(|n| !co.members.contains_key(*n)).cloned();
    let mut lines: Vec<(String, String)> = vec![];
    for l in ['k', 'l', 'i', 'b', 'e', 'I'] {
        if applied.contains(l) {
            if let Some(o) = &outsider {
                lines.push((o.clone(), format!("JOIN {}", ch)));
            }
            break;
        }
    }
    if applied.contains('m') || applied.contains('n') || applied.contains('s') || applied.contains('v') {
        if let Some(m) = &plain_member {
            lines.push((m.clone(), format!("PRIVMSG {} :enforcement probe", ch)));
            // (a status-addressed copy is governed by the same rules)
            lines.push((m.clone(), format!("PRIVMSG {}{} :enforcement probe to a status", ["+", "@", "%", "~&@%+"][(eng.model.users.len() + applied.len()) % 4], ch)));
        }
        if let Some(o) = &outsider {
            lines.push((o.clone(), format!("PRIVMSG {} :enforcement probe from outside", ch)));
            lines.push((o.clone(), format!("NOTICE {} :enforcement notice from outside", ch)));
        }
        if let Some(m) = &plain_member {
            lines.push((m.clone(), format!("NOTICE {} :enforcement notice", ch)));
        }
    }
    // bans and exceptions govern speaking too (PRIVMSG and NOTICE alike)
    if applied.contains('b') || applied.contains('e') {
        for who in co.members.keys().filter(|n| !co.members[*n].any()).take(2) {
            lines.push((who.clone(), format!("PRIVMSG {} :am I banned?", ch)));
            lines.push((who.clone(), format!("NOTICE {} :am I banned?", ch)));
        }
    }
    if applied.contains('t') {
        if let Some(m) = &plain_member {
            lines.push((m.clone(), format!("TOPIC {} :enforcement probe", ch)));
        }
    }
    if applied.contains('i') {
        if let (Some(m), Some(o)) = (&plain_member, &outsider) {
            lines.push((m.clone(), format!("INVITE {} {}", o, ch)));
        }
    }
    for (nick, line) in lines {
        let Some(c) = eng.model.conn_of(&nick) else { continue };
        let mut o = eng.line(c, &line);
        o.ctx = "MODE#".into();
        *xs.counters.entry("enforcement_probes".into()).or_insert(0) += 1;
        let owns_all = |d: &Disc, _o: &StepOut| not_panic(d);
        let pol = Policy { id: "C08", owns: &owns_all };
        match judge(&pol, eng, &o) {
            Verdict::Violation(mut v) => {
                v.explanation = format!("enforcement probe after `{}`: {}", last.sent, v.explanation);
                v.signature = format!("enforce:{}", v.signature);
                return Err(v);
            }
            _ => {}
        }
    }
    Ok(())
}

pub const C08: MbSpec = MbSpec {
    id: "C08",
    ncfg: 40,
    max_ops: 30,
    build: c08_build,
    owns: c08_owns,
    probe_level: 1,
    nontrivial: c08_nontrivial,
    extra: Some(c08_enforce),
};

// ------------------------------------------------------------------------------------- C09
fn c09_build(cfg: &[u16]) -> Built {
    let mut s = S::new(cfg);
    s.raw();
    let users = 5 + s.pick(2);
    let mut setup = vec![];
    rank_setup(&mut s, "#c0", users - 1, &mut setup);
    if s.chance(50) {
        setup.push(("n0".into(), "MODE #c0 +t".into()));
    }
    if s.chance(40) {
        setup.push(("n0".into(), "MODE #c0 +i".into()));
    }
    // other obstacles an invited user can meet first (the invitation must survive a refusal)
    if s.chance(25) {
        setup.push(("n0".into(), format!("MODE #c0 +l {}", 1 + s.pick(users))));
    }
    if s.chance(20) {
        setup.push(("n0".into(), "MODE #c0 +k k1".into()));
    }
    let prof = Profile::base().with(&[
        (K::Kick, 26),
        (K::Topic, 20),
        (K::Invite, 20),
        (K::Join, 12),
        (K::Part, 4),
        (K::ModeChan, 10),
        (K::Nick, 3),
        (K::NewUser, 3),
        (K::Drop, 2),
        (K::List, 2),
        (K::Away, 3),
        (K::CapPost, 2),
    ]);
    // an IRC operator has no channel rank by that alone
    let mut prof = prof;
    prof.weights.push((K::Oper, 4));
    let mut c9 = CfgSpec::default();
    c9.opers.push(OperSpec { name: "op0".into(), password: "operpw0".into(), mask: None });
    prof.oper_names.push(("op0".into(), "operpw0".into()));
    if s.chance(30) {
        setup.push((format!("n{}", 1 + s.pick(users - 1)), "OPER op0 operpw0".into()));
    }
    enrich(Built { cfg: c9, prof, prelude_users: users, setup }, &mut s)
}

fn c09_owns(d: &Disc, out: &StepOut, _t: &Trace) -> bool {
    ["KICK", "TOPIC", "INVITE", "JOIN"].contains(&out.ctx.as_str())
        && not_panic(d)
        && probe_codes(d, out, &["353", "352", "319", "332", "331", "322", "324"])
}

fn c09_nontrivial(t: &Trace) -> Option<String> {
    let mut sigs: BTreeSet<String> = BTreeSet::new();
    for tag in &t.tags {
        if tag.starts_with("kick:done:") || tag.starts_with("kick:refused:") {
            let r = tag.rsplit(':').next().unwrap_or("");
            let victim = r.split('>').nth(1).unwrap_or("");
            if !victim.is_empty() || tag.starts_with("kick:refused:rank") {
                sigs.insert(tag.clone());
            }
        }
        if tag == "topic:refused:rank" || tag == "invite:refused:rank" || tag == "kick:repeat" {
            sigs.insert(tag.clone());
        }
        if tag == "invite:done" && t.has("join:accept:i") {
            sigs.insert("invite-admits".into());
        }
    }
    if sigs.is_empty() {
        None
    } else {
        Some(sigs.into_iter().take(2).collect::<Vec<_>>().join(","))
    }
}

pub const C09: MbSpec = MbSpec {
    id: "C09",
    ncfg: 40,
    max_ops: 30,
    build: c09_build,
    owns: c09_owns,
    probe_level: 1,
    nontrivial: c09_nontrivial,
    extra: Some(c09_extra),
};

// ------------------------------------------------------------------------------------- C10
fn c10_build(cfg: &[u16]) -> Built {
    let mut s = S::new(cfg);
    s.raw();
    let users = 5 + s.pick(2);
    let mut setup = vec![];
    // the last user stays outside #c0 (outside sender)
    rank_setup(&mut s, "#c0", users - 1, &mut setup);
    for f in ["n", "s", "m"] {
        if s.chance(45) {
            setup.push(("n0".into(), format!("MODE #c0 +{}", f)));
        }
    }
    let nb = s.pick(3);
    for _ in 0..nb {
        let who = 1 + s.pick(users - 1);
        setup.push(("n0".into(), format!("MODE #c0 +b {}", derive_mask(&src_of(who), &mut s))));
    }
    if nb > 0 && s.chance(50) {
        let who = 1 + s.pick(users - 1);
        setup.push(("n0".into(), format!("MODE #c0 +e {}", derive_mask(&src_of(who), &mut s))));
    }
    if s.chance(50) {
        let who = s.pick(users);
        setup.push((format!("n{}", who), "AWAY :gone fishing".into()));
    }
    let prof = Profile::base().with(&[
        (K::Privmsg, 30),
        (K::Notice, 20),
        (K::ModeChan, 15),
        (K::Away, 8),
        (K::Join, 6),
        (K::Part, 5),
        (K::Nick, 5),
        (K::Kick, 3),
        (K::NewUser, 3),
        (K::CapPost, 3),
        // an IRC operator has no more right to speak into a channel than anybody else
        (K::Oper, 3),
    ]);
    let mut prof = prof;
    let mut c = CfgSpec::default();
    c.opers.push(OperSpec { name: "op0".into(), password: "operpw0".into(), mask: None });
    prof.oper_names.push(("op0".into(), "operpw0".into()));
    // the outside sender is sometimes an IRC operator from the start
    if s.chance(30) {
        setup.push((format!("n{}", users - 1), "OPER op0 operpw0".into()));
    }
    enrich(Built { cfg: c, prof, prelude_users: users, setup }, &mut s)
}

fn c10_owns(d: &Disc, out: &StepOut, _t: &Trace) -> bool {
    // a change of what governs speaking (voice, +m, +n, bans and exceptions) that is announced
    // although it must be refused, or the other way round, changes who may speak
    if out.ctx == "MODE#" && !out.is_probe {
        if let Disc::Missing { line, .. } | Disc::Extra { line, .. } = d {
            return line[0] != "S"
                && line[1] == "MODE"
                && line[3..].iter().any(|p| {
                    let mut c = p.chars();
                    matches!(c.next(), Some('+') | Some('-')) && c.next().map_or(false, |l| "vmnbe".contains(l))
                });
        }
        return false;
    }
    if !(out.ctx == "PRIVMSG" || out.ctx == "NOTICE") {
        return false;
    }
    match d {
        // any server-prefixed line on the sender: 404/403/401/301 expected or not; for NOTICE any
        Disc::Missing { line, .. } | Disc::Extra { line, .. } if line[0] == "S" => true,
        Disc::Missing { line, .. } | Disc::Extra { line, .. } => {
            if !["PRIVMSG", "NOTICE"].contains(&line[1].as_str()) {
                return false;
            }
            let target = line.get(2).cloned().unwrap_or_default();
            let observed = recipients(out, &line[1], &target);
            match out.exp.send_targets.iter().find(|(t, _, _)| *t == target) {
                // model accepts, nobody got anything: the server refused a message it must deliver
                Some((_, true, _)) => observed == 0,
                // model refuses, somebody got it
                Some((_, false, _)) => true,
                None => false,
            }
        }
        _ => false,
    }
}

fn c10_nontrivial(t: &Trace) -> Option<String> {
    let mut sigs: BTreeSet<String> = BTreeSet::new();
    let notice = t.has("verb:NOTICE");
    for tag in &t.tags {
        if let Some(r) = tag.strip_prefix("send:chan:") {
            let p: Vec<&str> = r.split(':').collect();
            let cond = p.get(1).copied().unwrap_or("");
            let kinds = [cond.contains('x'), cond.contains('n') || cond.contains('s'), cond.contains('m'), cond.contains('b'), cond.contains('e')];
            if kinds.iter().filter(|x| **x).count() >= 2 {
                sigs.insert(format!("{}:{}", p[0], cond));
            }
        }
        if notice && (tag == "send:nonick" || tag == "send:nochan" || tag == "send:away") {
            sigs.insert(format!("notice+{}", tag));
        }
        if tag == "send:away" {
            sigs.insert("away".into());
        }
    }
    if sigs.is_empty() {
        None
    } else {
        Some(sigs.into_iter().take(2).collect::<Vec<_>>().join(","))
    }
}

pub const C10: MbSpec = MbSpec {
    id: "C10",
    ncfg: 40,
    max_ops: 30,
    build: c10_build,
    owns: c10_owns,
    probe_level: 0,
    nontrivial: c10_nontrivial,
    extra: None,
};

// ------------------------------------------------------------------------------------- C11
fn oper_cfg(s: &mut S, c: &mut CfgSpec, prof: &mut Profile) {
    let n = 1 + s.pick(2);
    for i in 0..n {
        let mask = match s.pick(8) {
            0 => Some("*!*@10.0.0.*".to_string()),
            1 => Some(format!("*!*@10.0.0.{}", 1 + s.pick(4))),
            2 => Some("*!*@192.168.*".to_string()),
            // masks that constrain the nick: what counts is the nick held at the time of OPER
            3 => Some(format!("n{}!*@*", s.pick(4))),
            4 => Some("n?!*@10.0.0.*".to_string()),
            5 => Some(["N0!*@*", "op0!*@*", "*!~u1@*", "*!*@10.0.0.?", "*!*@10.0.0.1?", "*!*@10.0.0.??"][s.pick(6)].to_string()),
            _ => None,
        };
        let name = format!("op{}", i);
        let pw = format!("operpw{}", i);
        c.opers.push(OperSpec { name: name.clone(), password: pw.clone(), mask: mask.clone() });
        // the same [[operators]] entry written twice (identical copies, so that which of the two
        // counts does not matter): the entries after it must still be found under their own names
        if i == 0 && n == 2 && s.chance(20) {
            c.opers.push(OperSpec { name: name.clone(), password: pw.clone(), mask });
        }
        prof.oper_names.push((name.clone(), pw));
        // operator names are also nicknames users may take
        prof.nicks.push(name);
    }
}

fn c11_build(cfg: &[u16]) -> Built {
    let mut s = S::new(cfg);
    s.raw();
    let users = 3 + s.pick(3);
    let mut c = CfgSpec::default();
    let mut prof = Profile::base().with(&[
        (K::Oper, 18),
        (K::ModeUser, 24),
        (K::Nick, 10),
        (K::Kill, 10),
        (K::Wallops, 10),
        (K::Stats, 5),
        (K::Squit, 2),
        (K::Die, 2),
        (K::NewUser, 6),
        (K::Join, 5),
        (K::Drop, 3),
        (K::Privmsg, 3),
        (K::Away, 4),
        (K::CapPost, 2),
    ]);
    oper_cfg(&mut s, &mut c, &mut prof);
    // nicknames that differ only in letter case are different users for this server
    prof.nicks.push("N0".into());
    prof.nicks.push("N1".into());
    c.default_modes = ["", "", "", "w", "i", "o", "O", "ow", "iw", "iO", "iow"][s.pick(11)].to_string();
    Built { cfg: c, prof, prelude_users: users, setup: vec![] }
}

fn c11_owns(d: &Disc, out: &StepOut, _t: &Trace) -> bool {
    match d {
        Disc::Missing { line, .. } | Disc::Extra { line, .. } => {
            if line[0] == "S" {
                ["381", "464", "491", "481", "483", "502", "221", "313", "378", "379"].contains(&line[1].as_str())
                    || (line[1] == "ERROR" && ["KILL", "DIE", "SQUIT"].contains(&out.ctx.as_str()))
            } else {
                line[1] == "WALLOPS" || (line[1] == "MODE" && !line[2].starts_with('#') && !line[2].starts_with('&'))
            }
        }
        Disc::AnyOf { set, .. } => set.iter().any(|l| ["464", "491", "483", "481"].contains(&l[1].as_str())),
        Disc::UnexpectedClose { .. } | Disc::MissingClose { .. } => ["KILL", "DIE", "SQUIT"].contains(&out.ctx.as_str()),
        Disc::ServerQuit { .. } => true,
        _ => false,
    }
}

fn c11_nontrivial(t: &Trace) -> Option<String> {
    let attempts = [
        ("oper:refused", 'r'),
        ("umode:+oper-attempt", 'm'),
        ("oper:granted", 'g'),
        ("umode:-oper", 'd'),
    ]
    .iter()
    .filter(|(p, _)| t.has(p))
    .map(|(_, c)| *c)
    .collect::<String>();
    let privs = [("priv:refused", 'x'), ("kill:", 'k'), ("wallops:sent", 'w'), ("die", 'D')]
        .iter()
        .filter(|(p, _)| t.has(p))
        .map(|(_, c)| *c)
        .collect::<String>();
    if (attempts.contains('r') || attempts.contains('m')) && !privs.is_empty() {
        Some(format!("{}|{}", attempts, privs))
    } else {
        None
    }
}

pub const C11: MbSpec = MbSpec {
    id: "C11",
    ncfg: 24,
    max_ops: 30,
    build: c11_build,
    owns: c11_owns,
    probe_level: 1,
    nontrivial: c11_nontrivial,
    extra: None,
};

// C11 part `stop_after_kill`: DIE / SQUIT from an operator stops the server whatever the operator
// has just done to individual users in the same write (KILLs, also of the same nick twice); from
// anybody else it stops nothing.
#[derive(Clone, Debug, serde_derive::Serialize, serde_derive::Deserialize)]
pub struct StopCase {
    pub seeds: Vec<u16>,
}

pub fn c11_stop_case(c: &StopCase, st: &mut Stats) -> Result<(), Viol> {
    use crate::sim::World;
    let mut s = S::new(&c.seeds);
    let seed = s.raw() as u64;
    let mut cfg = CfgSpec::default();
    cfg.opers.push(OperSpec { name: "op0".into(), password: "operpw0".into(), mask: None });
    let mut w = World::new(cfg.to_main_config(), seed);
    let n = 3 + s.pick(3);
    for i in 0..n {
        let cc = w.connect();
        w.send_line(cc, &format!("NICK n{}", i));
        w.send_line(cc, &format!("USER u{} 0 * :Real n{}", i, i));
        w.settle();
        w.drain(cc);
    }
    w.send_line(0, "OPER op0 operpw0");
    w.settle();
    w.drain(0);
    let by_oper = s.chance(75);
    let sender = if by_oper { 0 } else { 1 };
    let mut blob = String::new();
    let kills = s.pick(3);
    let mut victims = vec![];
    for _ in 0..kills {
        let v = 2 + s.pick(n - 2);
        victims.push(v);
        blob += &format!("KILL n{} :on the way out\r\n", v);
    }
    let stop = ["DIE :bye", "DIE", "SQUIT irc.irc :bye"][s.pick(3)];
    blob += stop;
    blob += "\r\n";
    w.send_bytes(sender, blob.as_bytes());
    w.settle();
    w.settle();
    let stopped = w.quit_seen.is_some();
    let mut log = vec![format!("c{} ({}) > {}", sender, if by_oper { "operator" } else { "ordinary user" }, blob.replace("\r\n", " | "))];
    for cc in 0..n {
        for l in w.drain(cc) {
            log.push(format!("c{} < {}", cc, l));
        }
    }
    crate::sim::set_in_sim(false);
    let panics = crate::sim::take_panics();
    st.nontrivial(format!("{}|k{}|{}|dup{}", by_oper, kills, stop.split(' ').next().unwrap_or(""), (victims.len() == 2 && victims[0] == victims[1]) as u8), || {
        serde_json::json!({"sender": if by_oper { "operator" } else { "user" }, "kills_before": kills, "stop": stop})
    });
    if let Some(p) = panics.iter().find(|p| p.task.is_some()) {
        return Err(Viol::new("C11.handler_abort", "stop:panic", format!("`{}` aborted the handler: {} at {}", blob.replace("\r\n", " | "), p.msg, p.loc)).with_transcript(log));
    }
    if by_oper && !stopped {
        return Err(Viol::new("C11.operator_stops_server", format!("stop:not-stopped:{}", stop.split(' ').next().unwrap_or("")), format!("an operator sent `{}` in one write and the server keeps running", blob.replace("\r\n", " | "))).with_transcript(log));
    }
    if !by_oper && stopped {
        return Err(Viol::new("C11.only_operators_stop", "stop:by-user", format!("an ordinary user's `{}` stopped the server", stop)).with_transcript(log));
    }
    Ok(())
}

pub fn run_c11(ctx: &RunCtx) -> Vec<PartOutcome> {
    use proptest::prelude::*;
    let mut parts = run_spec(ctx, &C11, 6000, 100000);
    parts.push(explore(ctx, "stop_after_kill", ctx.tier.pick(600, 8_000), || prop::collection::vec(any::<u16>(), 8).prop_map(|seeds| StopCase { seeds }), c11_stop_case));
    parts
}

pub fn replay_c11(part: &str, input: &Value) -> Option<Result<Result<(), Viol>, String>> {
    match part {
        "stop_after_kill" => Some(replay_input::<StopCase>(input, c11_stop_case)),
        _ => replay_spec(&C11, part, input),
    }
}

// C09 part `long_texts`: topics and kick comments of every size around the advertised TOPICLEN /
// KICKLEN (1000 bytes), multi-byte at every phase.  The oracle does not demand the full text (a
// server may cut at a character boundary): what the members are told must be a prefix of what was
// sent, every copy of one announcement must be the same, and later TOPIC / LIST / JOIN replies
// must show exactly the announced topic.
#[derive(Clone, Debug, serde_derive::Serialize, serde_derive::Deserialize)]
pub struct LongCase {
    pub seeds: Vec<u16>,
}

fn long_text(s: &mut S) -> String {
    let ch = ["\u{e9}", "\u{65e5}", "\u{1f600}", "x"][s.pick(4)];
    let total = [0usize, 1, 300, 996, 997, 998, 999, 1000, 1001, 1002, 1003, 1004, 1300, 1500, 1900][s.pick(15)];
    let lead = s.pick(4);
    let mut t = "a".repeat(lead.min(total));
    while t.len() < total {
        t.push_str(ch);
    }
    if s.chance(15) && !t.is_empty() {
        if s.chance(50) {
            t.insert(0, ' ');
        } else {
            t.push(' ');
        }
    }
    t
}

pub fn c09_long_case(c: &LongCase, st: &mut Stats) -> Result<(), Viol> {
    use crate::sim::World;
    let mut s = S::new(&c.seeds);
    let seed = s.raw() as u64;
    let mut w = World::new(CfgSpec::default().to_main_config(), seed);
    let nicks = ["fa", "mb", "mc", "out", "late"];
    for (i, n) in nicks.iter().enumerate() {
        let cc = w.connect();
        w.send_line(cc, &format!("NICK {}", n));
        w.send_line(cc, &format!("USER u{} 0 * :Long {}", i, i));
        w.settle();
        w.drain(cc);
    }
    let ch = ["#t", "&t", "#T.t"][s.pick(3)];
    for cc in 0..3 {
        w.send_line(cc, &format!("JOIN {}", ch));
        w.settle();
    }
    if s.chance(50) {
        w.send_line(0, &format!("MODE {} +t", ch));
        w.settle();
    }
    for cc in 0..5 {
        w.drain(cc);
    }
    let mut log: Vec<String> = vec![];
    let short = |t: &str| -> String {
        if t.len() > 60 {
            let mut e = 40;
            while !t.is_char_boundary(e) {
                e -= 1;
            }
            format!("{}...({} bytes)", &t[..e], t.len())
        } else {
            t.to_string()
        }
    };
    let last_of = |ls: &[String], verb: &str| -> Vec<String> {
        ls.iter().filter_map(|l| crate::refparse::parse(l).ok()).filter(|m| m.command == verb).filter_map(|m| m.params.last().cloned()).collect()
    };
    let viol = |pred: &str, sig: &str, msg: String, log: &Vec<String>| Viol::new(pred, sig.to_string(), msg).with_transcript(log.iter().rev().take(30).rev().cloned().collect());
    let rounds = 2 + s.pick(4);
    let mut classes = BTreeSet::new();
    let mut late_in = false;
    for _ in 0..rounds {
        let t = long_text(&mut s);
        let cls = if t.len() < 990 { "short" } else if t.len() <= 1000 { "upto" } else if t.len() < 1010 { "just-over" } else { "long" };
        classes.insert(cls);
        if s.chance(65) {
            // TOPIC by the founder
            w.send_line(0, &format!("TOPIC {} :{}", ch, t));
            w.settle();
            log.push(format!("fa > TOPIC {} :{}", ch, short(&t)));
            let mut copies = vec![];
            for cc in 0..3 {
                let ls = w.drain(cc);
                let a = last_of(&ls, "TOPIC");
                if a.len() != 1 {
                    return Err(viol("C09.topic_announced_to_all_members", "long:topic-not-announced", format!("`TOPIC {} :{}` by the founder: member {} saw {} TOPIC announcements", ch, short(&t), nicks[cc], a.len()), &log));
                }
                copies.push(a[0].clone());
            }
            let a = copies[0].clone();
            if copies.iter().any(|x| *x != a) {
                return Err(viol("C09.topic_announced_to_all_members", "long:topic-copies-differ", format!("`TOPIC {} :{}`: the members were told different topics ({:?} bytes)", ch, short(&t), copies.iter().map(|x| x.len()).collect::<Vec<_>>()), &log));
            }
            if !t.starts_with(a.as_str()) || (a.is_empty() && !t.is_empty()) {
                return Err(viol("C09.topic_announced_to_all_members", "long:topic-not-prefix", format!("`TOPIC {} :{}` was announced as `{}`", ch, short(&t), short(&a)), &log));
            }
            log.push(format!("announced: {} bytes of {}", a.len(), t.len()));
            // later replies: TOPIC query by a member, LIST by an outsider, JOIN by a newcomer
            w.send_line(1, &format!("TOPIC {}", ch));
            w.send_line(3, &format!("LIST {}", ch));
            w.settle();
            let q = w.drain(1);
            let l = w.drain(3);
            let shown_q = last_of(&q, "332");
            let shown_l = last_of(&l, "322");
            let mut shown: Vec<(&str, Option<String>)> = vec![];
            if a.is_empty() {
                // an empty topic clears it: 331 and an empty 322 text
                if !shown_q.is_empty() {
                    return Err(viol("C09.topic_shown_as_announced", "long:cleared-topic-shown", format!("after the topic of {} was cleared, TOPIC still shows `{}`", ch, short(&shown_q[0])), &log));
                }
            } else {
                shown.push(("TOPIC", shown_q.get(0).cloned()));
            }
            shown.push(("LIST", shown_l.get(0).cloned()));
            if !late_in {
                w.send_line(4, &format!("JOIN {}", ch));
                w.settle();
                let j = w.drain(4);
                let shown_j = last_of(&j, "332");
                if !a.is_empty() {
                    shown.push(("JOIN", shown_j.get(0).cloned()));
                } else if !shown_j.is_empty() {
                    return Err(viol("C09.topic_shown_as_announced", "long:cleared-topic-shown", format!("after the topic of {} was cleared, JOIN still shows `{}`", ch, short(&shown_j[0])), &log));
                }
                if s.chance(70) {
                    w.send_line(4, &format!("PART {}", ch));
                    w.settle();
                } else {
                    late_in = true;
                }
                for cc in 0..5 {
                    w.drain(cc);
                }
            }
            for (what, got) in shown {
                if got.as_deref() != Some(a.as_str()) {
                    return Err(viol(
                        "C09.topic_shown_as_announced",
                        &format!("long:topic-differs:{}", what),
                        format!("the members of {} were told a topic of {} bytes (`{}`); a later {} reply shows {}", ch, a.len(), short(&a), what, got.map_or("no topic".to_string(), |g| format!("{} bytes (`{}`)", g.len(), short(&g)))),
                        &log,
                    ));
                }
            }
        } else {
            // KICK of mb by the founder with a long comment; mb comes back
            let empty_form = t.is_empty() && s.chance(50);
            w.send_line(0, &if empty_form { format!("KICK {} mb", ch) } else { format!("KICK {} mb :{}", ch, t) });
            w.settle();
            log.push(format!("fa > KICK {} mb{}", ch, if empty_form { String::new() } else { format!(" :{}", short(&t)) }));
            let mut copies = vec![];
            for cc in 0..3 {
                let ls = w.drain(cc);
                let a = last_of(&ls, "KICK");
                if a.len() != 1 {
                    return Err(viol("C09.kick_announced", "long:kick-not-announced", format!("`KICK {} mb :{}` by the founder: {} saw {} KICK announcements", ch, short(&t), nicks[cc], a.len()), &log));
                }
                copies.push(a[0].clone());
            }
            let a = copies[0].clone();
            if copies.iter().any(|x| *x != a) {
                return Err(viol("C09.kick_announced", "long:kick-copies-differ", format!("`KICK {} mb :{}`: members and victim saw different comments ({:?} bytes)", ch, short(&t), copies.iter().map(|x| x.len()).collect::<Vec<_>>()), &log));
            }
            if !empty_form && (!t.starts_with(a.as_str()) || (a.is_empty() != t.is_empty())) {
                return Err(viol("C09.kick_announced", "long:kick-not-prefix", format!("`KICK {} mb :{}` was announced with the comment `{}`", ch, short(&t), short(&a)), &log));
            }
            w.send_line(1, &format!("JOIN {}", ch));
            w.settle();
            let back = w.drain(1);
            if !back.iter().any(|l| l.contains(" JOIN ")) {
                return Err(viol("C09.kick_announced", "long:victim-cannot-return", format!("after `KICK {} mb :{}` the victim's JOIN was not accepted: {:?}", ch, short(&t), back.iter().take(3).collect::<Vec<_>>()), &log));
            }
            for cc in 0..5 {
                w.drain(cc);
            }
        }
    }
    crate::sim::set_in_sim(false);
    let panics = crate::sim::take_panics();
    if let Some(p) = panics.iter().find(|p| p.task.is_some()) {
        return Err(viol("C09.handler_abort", "long:panic", format!("handler aborted: {} at {}", p.msg, p.loc), &log));
    }
    let key = classes.iter().cloned().collect::<Vec<_>>().join("+");
    if classes.iter().any(|c| *c != "short") {
        st.nontrivial(format!("{}|{}", ch, key), || serde_json::json!({"channel": ch, "rounds": rounds, "size_classes": key}));
    }
    Ok(())
}

pub fn run_c09(ctx: &RunCtx) -> Vec<PartOutcome> {
    use proptest::prelude::*;
    let mut parts = run_spec(ctx, &C09, 8000, 150000);
    parts.push(explore(ctx, "long_texts", ctx.tier.pick(4_000, 60_000), || prop::collection::vec(any::<u16>(), 64).prop_map(|seeds| LongCase { seeds }), c09_long_case));
    parts
}

pub fn replay_c09(part: &str, input: &Value) -> Option<Result<Result<(), Viol>, String>> {
    match part {
        "long_texts" => Some(replay_input::<LongCase>(input, c09_long_case)),
        _ => replay_spec(&C09, part, input),
    }
}

// ------------------------------------------------------------------------------------- C15
fn c15_build(cfg: &[u16]) -> Built {
    let mut s = S::new(cfg);
    s.raw();
    let users = 4 + s.pick(2);
    let mut c = CfgSpec::default();
    let mut prof = Profile::base().with(&[
        (K::Nick, 36),
        (K::ModeUser, 8),
        (K::Away, 6),
        (K::Oper, 5),
        (K::Invite, 6),
        (K::Join, 8),
        (K::Part, 4),
        (K::ModeChan, 8),
        (K::Wallops, 6),
        (K::Privmsg, 6),
        (K::NewUser, 5),
        (K::Drop, 3),
        (K::Whowas, 4),
        (K::Who, 6),
        (K::Whois, 3),
        (K::CapPost, 2),
    ]);
    c.opers.push(OperSpec { name: "op0".into(), password: "operpw0".into(), mask: None });
    prof.oper_names.push(("op0".into(), "operpw0".into()));
    let mut setup = vec![];
    rank_setup(&mut s, "#c0", users, &mut setup);
    if s.chance(60) {
        rank_setup(&mut s, "#c1", users, &mut setup);
    }
    // a channel from the configuration: the ranks it grants belong to the configured nicknames,
    // they do not follow a user who changes nick
    if s.chance(50) {
        c.channels.push(ChanSpec {
            name: "#pre0".into(),
            flags: "n".into(),
            operators: vec!["n1".into(), "n5".into()],
            voices: vec!["n2".into(), "N0".into()],
            founders: vec!["n3".into()],
            ..Default::default()
        });
        prof.chans.push("#pre0".into());
        for i in 1..users {
            if s.chance(60) {
                setup.push((format!("n{}", i), "JOIN #pre0".into()));
            }
        }
    }
    setup.push(("n0".into(), "JOIN #c2".into()));
    setup.push(("n0".into(), "MODE #c2 +i".into()));
    for i in 1..users {
        if s.chance(40) {
            setup.push(("n0".into(), format!("INVITE n{} #c2", i)));
        }
        if s.chance(35) {
            setup.push((format!("n{}", i), "MODE ".to_string() + &format!("n{} +{}", i, ["i", "w", "iw"][s.pick(3)])));
        }
        if s.chance(30) {
            setup.push((format!("n{}", i), "AWAY :out to lunch".into()));
        }
        if s.chance(25) {
            setup.push((format!("n{}", i), "OPER op0 operpw0".into()));
        }
    }
    enrich(Built { cfg: c, prof, prelude_users: users, setup }, &mut s)
}

fn c15_owns(d: &Disc, out: &StepOut, t: &Trace) -> bool {
    if out.ctx == "NICK" && not_panic(d) {
        return true;
    }
    // the nickname given up is recorded for WHOWAS (also once somebody holds it again)
    if out.ctx == "WHOWAS" && !t.renamed_conns.is_empty() && matches!(d, Disc::Missing { line, .. } | Disc::Extra { line, .. } if line[0] == "S" && ["314", "312", "406", "369"].contains(&line[1].as_str())) {
        return true;
    }
    // after an accepted rename: whatever was attached to the old nick must keep working under
    // the new one - WALLOPS reception, admission by a pending invitation, away replies, ranks.
    // Owned only when the discrepancy concerns a renamed user's connection or names a nick
    // that took part in a rename.
    if t.renamed_conns.is_empty() || matches!(d, Disc::Framing { .. } | Disc::Malformed { .. }) {
        return false;
    }
    let about_renamed = d.conn().map_or(false, |c| t.renamed_conns.contains(&c))
        || d.line().map_or(false, |l| l.iter().any(|x| t.renamed_nicks.iter().any(|n| x == n || x.ends_with(n.as_str()) || x.starts_with(&format!("{}!", n)))));
    match d {
        Disc::Panic { .. } | Disc::UnexpectedClose { .. } => ["WALLOPS", "PRIVMSG", "NOTICE", "JOIN", "INVITE", "KICK", "MODE#", "PART", "TOPIC"].contains(&out.ctx.as_str()),
        // something a renamed user must get (or a reply that names a renamed nick) is missing or
        // wrong; a surplus copy that merely lands on a renamed user's connection is not C15's
        Disc::Extra { line, .. } if line[0] != "S" => {
            line.iter().skip(2).any(|x| t.renamed_nicks.contains(x)) && ["WALLOPS", "PRIVMSG", "NOTICE", "JOIN", "INVITE", "KICK", "MODE#"].contains(&out.ctx.as_str())
        }
        // (WHO / WHOIS by mask: the renamed user is found under its new nick!user@host, and only
        // under it)
        _ => about_renamed && ["WALLOPS", "PRIVMSG", "NOTICE", "JOIN", "INVITE", "KICK", "MODE#", "WHO", "WHOIS"].contains(&out.ctx.as_str()),
    }
}

fn c15_nontrivial(t: &Trace) -> Option<String> {
    let mut sigs: BTreeSet<String> = BTreeSet::new();
    for tag in &t.tags {
        if let Some(r) = tag.strip_prefix("nickstate:") {
            let v = r.split(':').next().unwrap_or("");
            if v.len() >= 2 {
                sigs.insert(r.to_string());
            }
        }
    }
    if sigs.is_empty() {
        None
    } else {
        Some(sigs.into_iter().take(2).collect::<Vec<_>>().join(","))
    }
}

pub const C15: MbSpec = MbSpec {
    id: "C15",
    ncfg: 48,
    max_ops: 24,
    build: c15_build,
    owns: c15_owns,
    probe_level: 2,
    nontrivial: c15_nontrivial,
    extra: None,
};

// ------------------------------------------------------------------------------------- C16
fn c16_build(cfg: &[u16]) -> Built {
    let mut s = S::new(cfg);
    s.raw();
    let users = 3 + s.pick(2);
    let mut c = CfgSpec::default();
    c.max_joins = [None, None, Some(1), Some(2)][s.pick(4)];
    let mut prof = Profile::base().with(&[
        (K::Join, 30),
        (K::Part, 15),
        (K::Kick, 10),
        (K::Quit, 6),
        (K::Drop, 6),
        (K::Oper, 3),
        (K::Kill, 4),
        (K::NewUser, 10),
        (K::ModeChan, 8),
        (K::Topic, 6),
        (K::List, 3),
        (K::Lusers, 2),
        (K::Nick, 8),
        (K::CapPost, 2),
    ]);
    c.opers.push(OperSpec { name: "op0".into(), password: "operpw0".into(), mask: None });
    prof.oper_names.push(("op0".into(), "operpw0".into()));
    let npre = s.pick(4);
    for i in 0..npre {
        let name = ["#pre0", "&pre1", "#Pre2"][i % 3].to_string();
        let mut ch = ChanSpec { name: name.clone(), ..Default::default() };
        if s.chance(60) {
            ch.topic = Some(["Welcome", "a:b topic", "two words"][s.pick(3)].to_string());
        }
        for f in ['i', 'm', 's', 't', 'n'] {
            if s.chance(if f == 'i' { 15 } else { 30 }) {
                ch.flags.push(f);
            }
        }
        if s.chance(25) {
            ch.key = Some("k1".into());
        }
        if s.chance(25) {
            ch.limit = Some(1 + s.pick(3));
        }
        if s.chance(30) {
            ch.ban.push(derive_mask(&src_of(s.pick(4)), &mut s));
        }
        if s.chance(20) {
            ch.except.push(derive_mask(&src_of(s.pick(4)), &mut s));
        }
        if s.chance(20) {
            ch.invex.push(derive_mask(&src_of(s.pick(4)), &mut s));
        }
        for (l, p) in [('q', 25), ('a', 20), ('o', 35), ('h', 25), ('v', 30)] {
            if s.chance(p) {
                let n = format!("n{}", s.pick(5));
                match l {
                    'q' => ch.founders.push(n),
                    'a' => ch.protecteds.push(n),
                    'o' => ch.operators.push(n),
                    'h' => ch.half_operators.push(n),
                    _ => ch.voices.push(n),
                }
            }
        }
        prof.chans.push(name);
        c.channels.push(ch);
    }
    Built { cfg: c, prof, prelude_users: users, setup: vec![] }
}

fn c16_owns(d: &Disc, out: &StepOut, _t: &Trace) -> bool {
    match d {
        Disc::Missing { line, .. } | Disc::Extra { line, .. } if line[0] == "S" => {
            ["324", "322", "254", "331", "332", "403", "405", "329", "367", "348", "346"].contains(&line[1].as_str())
                || (line[1] == "353" && out.ctx == "JOIN")
        }
        Disc::AnyOf { set, .. } => set.iter().any(|l| l[1] == "405") && set.len() == 1,
        _ => false,
    }
}

fn c16_nontrivial(t: &Trace) -> Option<String> {
    let creates = t.count_prefix("join:create");
    let leaves = t.count_prefix("part:done") + t.count_prefix("kick:done") + t.count_prefix("quit") + t.count_prefix("kill:");
    let kinds = [("part:done", 'p'), ("kick:done", 'k'), ("quit", 'q'), ("kill:", 'K')]
        .iter()
        .filter(|(p, _)| t.has(p))
        .map(|(_, c)| *c)
        .collect::<String>();
    let pre = t.tags.iter().any(|x| x.starts_with("join:accept") || x.starts_with("join:refused"));
    if creates >= 2 && leaves >= 1 {
        Some(format!("c{}l{}{}{}", creates.min(4), leaves.min(4), kinds, if pre { "P" } else { "" }))
    } else {
        None
    }
}

// ------------------------------------------------------------------------------------- C20 (sessions on a TOML-loaded configuration)
// Same kind of sessions as C16, but the configuration is rich in everything an administrator
// writes into the file (channels with overlapping rank lists, keys, limits, masks; operators with
// masks; quota; default user modes) and - see c20.rs - the server state is built from the TOML
// text, not from the in-memory structure.
fn c20g_build(cfg: &[u16]) -> Built {
    let mut s = S::new(cfg);
    s.raw();
    let users = 3 + s.pick(3);
    let mut c = CfgSpec::default();
    c.max_joins = [None, Some(1), Some(2), Some(3), Some(10)][s.pick(5)];
    c.default_modes = ["", "", "i", "w", "iw", "O", "o", "r", "rw"][s.pick(9)].to_string();
    c.motd = ["Hello, world!", "motd with : colon", "x"][s.pick(3)].to_string();
    let mut prof = Profile::base().with(&[
        (K::Join, 34),
        (K::Part, 10),
        (K::Kick, 6),
        (K::Oper, 10),
        (K::NewUser, 10),
        (K::ModeChan, 8),
        (K::Topic, 6),
        (K::List, 4),
        (K::Lusers, 2),
        (K::Nick, 6),
        (K::Privmsg, 6),
        (K::Drop, 4),
        (K::Contend, 5),
        (K::RegLine, 8),
        (K::RawConnect, 2),
    ]);
    // [[users]]: who logs in under a configured name (and only who does) is a registered user
    if s.chance(60) {
        let pw = if s.chance(40) { Some("userpass".to_string()) } else { None };
        let uname = if s.chance(50) { "CfgU" } else { "cfgu" };
        c.users.push(crate::cfgspec::UserSpec {
            name: uname.into(),
            nick: "cfgnick".into(),
            password: pw.clone(),
            mask: [None, None, Some("*!*@10.0.0.*".to_string()), Some("*!*@10.0.0.2".to_string())][s.pick(4)].clone(),
        });
        prof.reg_usernames.push(uname.into());
        if pw.is_some() {
            prof.reg_passwords = vec!["userpass".into(), "userpass".into(), "wrongpass".into()];
        }
    }
    for i in 0..(1 + s.pick(2)) {
        let mask = match s.pick(4) {
            0 => Some("*!*@10.0.0.*".to_string()),
            1 => Some(format!("*!*@10.0.0.{}", 1 + s.pick(4))),
            2 => Some("*!*@192.168.*".to_string()),
            _ => None,
        };
        // (names from the file are case-sensitive like every other name)
        let name = if s.chance(50) { format!("Op{}", i) } else { format!("op{}", i) };
        let pw = format!("operpw{}", i);
        c.opers.push(OperSpec { name: name.clone(), password: pw.clone(), mask });
        prof.oper_names.push((name, pw));
    }
    let npre = 1 + s.pick(3);
    for i in 0..npre {
        let name = ["#pre0", "&pre1", "#Pre2"][i % 3].to_string();
        let mut ch = ChanSpec { name: name.clone(), ..Default::default() };
        if s.chance(60) {
            ch.topic = Some(["Welcome", "a:b topic", "two words", "\u{e9}\u{65e5}"][s.pick(4)].to_string());
        }
        for f in ['i', 'm', 's', 't', 'n'] {
            if s.chance(if f == 'i' { 15 } else { 30 }) {
                ch.flags.push(f);
            }
        }
        if s.chance(30) {
            ch.key = Some(["k1", "k2"][s.pick(2)].into());
        }
        if s.chance(30) {
            ch.limit = Some(s.pick(4));
        }
        for _ in 0..s.pick(3) {
            ch.ban.push(derive_mask(&src_of(s.pick(4)), &mut s));
        }
        if s.chance(30) {
            ch.except.push(derive_mask(&src_of(s.pick(4)), &mut s));
        }
        if s.chance(30) {
            ch.invex.push(derive_mask(&src_of(s.pick(4)), &mut s));
        }
        // rank lists that overlap: the same nick in several lists gets all of them
        for n in 0..5 {
            let nick = format!("n{}", n);
            let bits = if s.chance(45) { s.pick(32) } else { 0 };
            if bits & 1 != 0 {
                ch.founders.push(nick.clone());
            }
            if bits & 2 != 0 {
                ch.protecteds.push(nick.clone());
            }
            if bits & 4 != 0 {
                ch.operators.push(nick.clone());
            }
            if bits & 8 != 0 {
                ch.half_operators.push(nick.clone());
            }
            if bits & 16 != 0 {
                ch.voices.push(nick.clone());
            }
        }
        if s.chance(30) {
            ch.operators.push("ghost".into());
        }
        prof.chans.push(name);
        c.channels.push(ch);
    }
    Built { cfg: c, prof, prelude_users: users, setup: vec![] }
}

fn c20g_owns(d: &Disc, out: &StepOut, t: &Trace) -> bool {
    if matches!(d, Disc::Framing { .. } | Disc::Malformed { .. }) {
        return false;
    }
    c16_owns(d, out, t) || ["JOIN", "OPER", "NEWUSER", "PRELUDE", "LIST", "TOPIC", "PRIVMSG", "REGLINE", "CONNECT"].contains(&out.ctx.as_str()) || out.is_probe
}

fn c20g_nontrivial(t: &Trace) -> Option<String> {
    let pre = t.tags.iter().filter(|x| x.starts_with("join:accept") || x.starts_with("join:refused")).count();
    let oper = t.tags.iter().any(|x| x.starts_with("oper:"));
    if pre >= 2 {
        Some(format!("j{}o{}", pre.min(6), oper as u8))
    } else {
        None
    }
}

pub const C20G: MbSpec = MbSpec {
    id: "C20",
    ncfg: 64,
    max_ops: 24,
    build: c20g_build,
    owns: c20g_owns,
    probe_level: 1,
    nontrivial: c20g_nontrivial,
    extra: None,
};

pub const C16: MbSpec = MbSpec {
    id: "C16",
    ncfg: 64,
    max_ops: 40,
    build: c16_build,
    owns: c16_owns,
    probe_level: 1,
    nontrivial: c16_nontrivial,
    extra: None,
};

// ------------------------------------------------------------------------------------- C19
fn c19_build(cfg: &[u16]) -> Built {
    let mut s = S::new(cfg);
    s.raw();
    let users = 2 + s.pick(4);
    let mut c = CfgSpec::default();
    let mut prof = Profile::base().with(&[
        (K::NewUser, 12),
        (K::ModeUser, 20),
        (K::Oper, 12),
        (K::Nick, 8),
        (K::Join, 8),
        (K::Part, 5),
        (K::Quit, 5),
        (K::Drop, 5),
        (K::Lusers, 10),
        (K::Ison, 6),
        (K::Userhost, 6),
        (K::Away, 4),
        (K::Kill, 3),
        (K::CapPost, 2),
        // channel modes (a secret channel is a channel all the same)
        (K::ModeChan, 6),
        // connections that are open but not (yet) registered are no users and no clients
        (K::RawConnect, 4),
        (K::RegLine, 6),
        (K::DropUnreg, 3),
    ]);
    oper_cfg(&mut s, &mut c, &mut prof);
    c.default_modes = ["", "", "i", "o", "O", "io", "iw", "oO"][s.pick(8)].to_string();
    enrich(Built { cfg: c, prof, prelude_users: users, setup: vec![] }, &mut s)
}

fn c19_owns(d: &Disc, out: &StepOut, _t: &Trace) -> bool {
    // the commands that move the counters (user MODE, OPER): an announced change that must not
    // happen (or the reverse), and a handler that aborts in the middle of the bookkeeping
    let counter_ctx = ["MODEu", "OPER"].contains(&out.ctx.as_str()) && !out.is_probe;
    match d {
        Disc::Missing { line, .. } | Disc::Extra { line, .. } if line[0] == "S" => {
            ["251", "252", "254", "255", "265", "266", "303", "302"].contains(&line[1].as_str())
        }
        Disc::Missing { line, .. } | Disc::Extra { line, .. } => counter_ctx && line[1] == "MODE" && !line[2].starts_with('#') && !line[2].starts_with('&'),
        Disc::Panic { .. } | Disc::UnexpectedClose { .. } => counter_ctx,
        _ => false,
    }
}

fn c19_nontrivial(t: &Trace) -> Option<String> {
    let opers = t.count_prefix("oper:granted");
    let toggles = t.count_prefix("umode:-oper") + t.count_prefix("umode:+oper-attempt");
    let exits = t.count_prefix("quit") + t.count_prefix("kill:");
    let inv = t.count_prefix("umode:changed");
    if opers >= 2 || toggles >= 1 || exits >= 1 {
        Some(format!("o{}t{}x{}i{}", opers.min(3), toggles.min(3), exits.min(3), inv.min(3)))
    } else {
        None
    }
}

pub const C19: MbSpec = MbSpec {
    id: "C19",
    ncfg: 24,
    max_ops: 30,
    build: c19_build,
    owns: c19_owns,
    probe_level: 1,
    nontrivial: c19_nontrivial,
    extra: None,
};

pub fn run_spec(ctx: &RunCtx, spec: &'static MbSpec, quick: u64, thorough: u64) -> Vec<PartOutcome> {
    let n = ctx.tier.pick(quick, thorough);
    let max_ops = ctx.tier.pick(spec.max_ops, spec.max_ops * 2);
    vec![explore(
        ctx,
        "history",
        n,
        || sc_strategy(spec.ncfg, max_ops),
        |c: &ScCase, st: &mut Stats| run_case(spec, c, st),
    )]
}

pub fn replay_spec(spec: &'static MbSpec, part: &str, input: &Value) -> Option<Result<Result<(), Viol>, String>> {
    match part {
        "history" => Some(replay_input::<ScCase>(input, |c, st| run_case(spec, c, st))),
        _ => None,
    }
}

// ------------------------------------------------------------------------------------- C02
fn c02_build(cfg: &[u16]) -> Built {
    let mut s = S::new(cfg);
    s.raw();
    let users = 1 + s.pick(3);
    let mut c = CfgSpec::default();
    let mut prof = Profile::base().with(&[
        (K::RawConnect, 8),
        (K::RegLine, 34),
        (K::Contend, 10),
        (K::DropUnreg, 10),
        (K::Nick, 12),
        (K::Join, 6),
        (K::Privmsg, 6),
        (K::Quit, 3),
        (K::Drop, 5),
        (K::Part, 2),
        (K::Away, 2),
        (K::ModeUser, 2),
        (K::Kick, 2),
        (K::CapPost, 4),
    ]);
    // few nicks, many connections
    let k = 2 + s.pick(2);
    prof.nicks = (0..k).map(|i| format!("n{}", i)).collect();
    prof.reg_nicks = prof.nicks.clone();
    prof.max_conns = 4 + s.pick(3);
    if s.chance(30) {
        c.password = Some("srvpass".into());
        prof.reg_passwords = vec!["srvpass".into(), "srvpass".into(), "wrongpass".into()];
    }
    if s.chance(25) {
        c.users.push(crate::cfgspec::UserSpec {
            name: "cfgu".into(),
            nick: "cfgnick".into(),
            password: if s.chance(50) { Some("userpass".into()) } else { None },
            mask: [None, Some("*!*@10.0.0.*".to_string()), Some("*!*@10.0.0.2".to_string()), Some("n0!*@*".to_string())][s.pick(4)].clone(),
        });
        prof.reg_usernames.push("cfgu".into());
        prof.reg_passwords.push("userpass".into());
        prof.reg_passwords.push("srvpass".into());
        // (the nick the configuration reserves for that user is a nick like any other)
        prof.nicks.push("cfgnick".into());
        prof.reg_nicks.push("cfgnick".into());
    }
    let mut setup = vec![];
    if s.chance(60) {
        setup.push(("n0".into(), "JOIN #c0".into()));
    }
    Built { cfg: c, prof, prelude_users: users.min(k), setup }
}

// C02 owns everything observable around registration contention: acceptance/refusal of nicks,
// the absence of any effect of refused / unfinished connections (probes), the attribution of
// relayed lines, and the survival of the legitimate owners.
fn c02_owns(d: &Disc, out: &StepOut, _t: &Trace) -> bool {
    let reg_ctx = ["REGLINE", "CONNECT", "CLOSEUNREG", "NICK", "NEWUSER", "CAP", "PASS", "USER"].contains(&out.ctx.as_str());
    match d {
        Disc::Panic { .. } | Disc::UnexpectedClose { .. } => true,
        Disc::Framing { .. } | Disc::Malformed { .. } => false,
        Disc::Missing { line, .. } | Disc::Extra { line, .. } => {
            if line[0] != "S" {
                // relayed lines around registration steps: wrong attribution, or effects of a
                // connection that is not registered
                return reg_ctx;
            }
            reg_ctx && ["001", "221", "433", "451", "462", "303", "311", "318", "353", "352", "319", "251", "255", "265", "266", "302", "401", "CAP"].contains(&line[1].as_str())
        }
        _ => reg_ctx,
    }
}

fn c02_nontrivial(t: &Trace) -> Option<String> {
    let late433 = t.count_prefix("reg:nick-taken-at-completion");
    let inuse = t.count_prefix("nick:in-use");
    let gated = t.count_prefix("gated");
    let welcome = t.count_prefix("reg:welcome");
    let badpw = t.count_prefix("reg:bad-password");
    let mask = t.count_prefix("reg:mask-mismatch");
    if (late433 + inuse >= 1 && welcome >= 2) || (late433 >= 1) {
        Some(format!(
            "l{}u{}g{}w{}p{}m{}",
            late433.min(3),
            inuse.min(3),
            (gated > 0) as u8,
            welcome.min(5),
            badpw.min(2),
            mask.min(2)
        ))
    } else {
        None
    }
}

pub const C02: MbSpec = MbSpec {
    id: "C02",
    ncfg: 16,
    max_ops: 40,
    build: c02_build,
    owns: c02_owns,
    probe_level: 1,
    nontrivial: c02_nontrivial,
    extra: None,
};

// ------------------------------------------------------------------------------------- C03
pub fn c03_config(k: usize) -> (CfgSpec, Vec<String>, Vec<String>) {
    // (config, passwords to try, usernames to try)
    let mut c = CfgSpec::default();
    c.opers.push(OperSpec { name: "op0".into(), password: "operpw0".into(), mask: None });
    let mut pw = vec!["otherpass".to_string()];
    let mut un = vec![];
    // (the configured name has a capital letter in half of the configurations: names are
    // case-sensitive like everything else)
    let uname = if k / 8 % 2 == 1 { "CfgU" } else { "cfgu" };
    let user = |password: Option<&str>, mask: Option<&str>| crate::cfgspec::UserSpec {
        name: uname.into(),
        nick: "cfgnick".into(),
        password: password.map(|s| s.to_string()),
        mask: mask.map(|s| s.to_string()),
    };
    // (a nameless placeholder entry in front of the real one in a quarter of the configurations)
    if k % 8 >= 2 && (k / 4) % 2 == 1 {
        c.users.push(crate::cfgspec::UserSpec { name: "".into(), nick: "placeholder".into(), password: None, mask: None });
    }
    match k % 8 {
        0 => {}
        1 => {
            c.password = Some("srvpass".into());
            pw.push("srvpass".into());
        }
        2 => {
            c.users.push(user(None, None));
            un.push(uname.into());
        }
        3 => {
            c.users.push(user(Some("userpass"), None));
            un.push(uname.into());
            pw.push("userpass".into());
        }
        4 => {
            c.password = Some("srvpass".into());
            c.users.push(user(Some("userpass"), None));
            un.push(uname.into());
            pw.push("userpass".into());
            pw.push("srvpass".into());
        }
        5 => {
            // (a mask no source of the session matches: another network, or one character too many)
            c.users.push(user(None, Some(if k / 8 % 2 == 1 { "*!*@10.0.0.??" } else { "*!*@192.168.*" })));
            un.push(uname.into());
        }
        6 => {
            c.users.push(user(Some("userpass"), Some("*!~cfgu@10.0.0.*")));
            un.push(uname.into());
            pw.push("userpass".into());
        }
        _ => {
            c.password = Some("srvpass".into());
            c.users.push(user(None, Some("n1!*@*")));
            un.push(uname.into());
            pw.push("srvpass".into());
        }
    }
    (c, pw, un)
}

fn c03_build(cfg: &[u16]) -> Built {
    let mut s = S::new(cfg);
    s.raw();
    let (c, pw, un) = c03_config(s.pick(16));
    let mut prof = Profile::base().with(&[
        (K::RegLine, 64),
        (K::Contend, 8),
        (K::RawConnect, 6),
        (K::DropUnreg, 5),
        (K::Privmsg, 4),
        (K::Join, 4),
        (K::Nick, 4),
        (K::Lusers, 3),
        (K::Quit, 2),
        (K::CapPost, 6),
        (K::Drop, 3),
    ]);
    prof.nicks = (0..4).map(|i| format!("n{}", i)).collect();
    // (the nick the configuration reserves for the configured user is a nick like any other)
    prof.nicks.push("cfgnick".into());
    prof.reg_passwords = pw;
    prof.reg_usernames = un;
    prof.max_conns = 4;
    // the observer n0 registers in the prelude (with whatever password the config needs)
    Built { cfg: c, prof, prelude_users: 1, setup: vec![("n0".into(), "JOIN #c0".into())] }
}

fn c03_owns(d: &Disc, out: &StepOut, _t: &Trace) -> bool {
    let reg_ctx = ["REGLINE", "CONNECT", "CLOSEUNREG", "NEWUSER", "PRELUDE", "CAP", "PASS", "USER"].contains(&out.ctx.as_str());
    reg_ctx && !matches!(d, Disc::Framing { .. } | Disc::Malformed { .. })
}

fn c03_nontrivial(t: &Trace) -> Option<String> {
    let gated = t.count_prefix("gated");
    let outcomes = [("reg:welcome", 'w'), ("reg:bad-password", 'p'), ("reg:mask-mismatch", 'm'), ("reg:nick-taken", 't'), ("nick:in-use", 'u')]
        .iter()
        .filter(|(p, _)| t.has(p))
        .map(|(_, c)| *c)
        .collect::<String>();
    if gated >= 2 || outcomes.contains('p') || outcomes.contains('m') {
        Some(format!("g{}|{}", gated.min(4), outcomes))
    } else {
        None
    }
}

pub const C03: MbSpec = MbSpec {
    id: "C03",
    ncfg: 8,
    max_ops: 24,
    build: c03_build,
    owns: c03_owns,
    probe_level: 1,
    nontrivial: c03_nontrivial,
    extra: None,
};

// small-scope exhaustive registration sequences (C03): all sequences of length <= L over an
// 8-symbol alphabet on one fresh connection, per configuration class
pub const C03_ALPHA: &[&str] = &["PASS {right}", "PASS wrongpass", "NICK n1", "USER {user} 0 * :Some One", "CAP LS 302", "CAP END", "PRIVMSG n0 :let me in", "JOIN #c0"];

#[derive(Clone, Debug, serde_derive::Serialize, serde_derive::Deserialize)]
pub struct SeqCase {
    pub config: usize,
    pub seq: Vec<usize>,
}

pub fn c03_seq_case(c: &SeqCase, st: &mut Stats) -> Result<(), Viol> {
    let (cfg, pw, un) = c03_config(c.config);
    let right = pw.last().cloned().unwrap_or_else(|| "nopass".into());
    let user = un.get(0).cloned().unwrap_or_else(|| "u1".into());
    let mut eng = crate::engine::Engine::new(&cfg, c.config as u64);
    let pol = Policy { id: "C03", owns: &|d: &Disc, _o: &StepOut| !matches!(d, Disc::Framing { .. } | Disc::Malformed { .. }) };
    let (_, outs) = eng.register("n0", "u0");
    for o in outs {
        if let Verdict::Violation(v) = judge(&pol, &eng, &o) {
            return Err(v);
        }
    }
    let c1 = eng.connect();
    let mut tags: Vec<String> = vec![];
    for sym in &c.seq {
        let line = C03_ALPHA[*sym].replace("{right}", &right).replace("{user}", &user);
        let mut o = eng.line(c1, &line);
        o.ctx = "REGLINE".into();
        tags.extend(o.exp.tags.iter().cloned());
        match judge(&pol, &eng, &o) {
            Verdict::Violation(v) => return Err(v),
            _ => {}
        }
        // the observer sees nothing and nothing changed: probe
        for l in ["ISON n0 n1", "LUSERS", "WHOIS n1", "NAMES #c0"] {
            let mut o = eng.line(0, l);
            o.ctx = "REGLINE".into();
            o.is_probe = true;
            if let Verdict::Violation(v) = judge(&pol, &eng, &o) {
                return Err(v);
            }
        }
    }
    let gated = tags.iter().filter(|t| *t == "gated").count();
    let done = tags.iter().any(|t| t.starts_with("reg:"));
    if done || gated >= 2 {
        st.nontrivial(format!("cfg{}|{:?}", c.config, c.seq), || {
            serde_json::json!({"config": c.config, "lines": c.seq.iter().map(|s| C03_ALPHA[*s]).collect::<Vec<_>>()})
        });
    }
    Ok(())
}

pub fn run_c03(ctx: &RunCtx) -> Vec<PartOutcome> {
    let mut parts = run_spec(ctx, &C03, 3_000, 50_000);
    let l = ctx.tier.pick(4usize, 5usize);
    let k = C03_ALPHA.len() as u64;
    let per_cfg: u64 = (0..=l as u32).map(|i| k.pow(i)).sum();
    parts.push(enumerate(
        ctx,
        "sequences_exhaustive",
        per_cfg * 16,
        |i| {
            let config = (i / per_cfg) as usize;
            let mut idx = i % per_cfg;
            let mut len = 0u32;
            let mut block = 1u64;
            while idx >= block {
                idx -= block;
                block *= k;
                len += 1;
            }
            let mut seq = vec![0usize; len as usize];
            for j in (0..len as usize).rev() {
                seq[j] = (idx % k) as usize;
                idx /= k;
            }
            SeqCase { config, seq }
        },
        c03_seq_case,
    ));
    parts
}

pub fn replay_c03(part: &str, input: &Value) -> Option<Result<Result<(), Viol>, String>> {
    match part {
        "sequences_exhaustive" => Some(replay_input::<SeqCase>(input, c03_seq_case)),
        _ => replay_spec(&C03, part, input),
    }
}

// ------------------------------------------------------------ C19 (slots): max_connections
#[derive(Clone, Debug, serde_derive::Serialize, serde_derive::Deserialize)]
pub struct SlotCase {
    pub seeds: Vec<u16>,
}

pub fn c19_slots(c: &SlotCase, st: &mut Stats) -> Result<(), Viol> {
    use crate::sim::{CloseKind, World};
    let mut s = S::new(&c.seeds);
    let seed = s.raw() as u64;
    let m = 1 + s.pick(5);
    let mut cfg = CfgSpec::default();
    cfg.max_connections = Some(m);
    let with_pw = s.chance(30);
    if with_pw {
        cfg.password = Some("srvpass".into());
    }
    cfg.opers.push(OperSpec { name: "op0".into(), password: "operpw0".into(), mask: None });
    let mut w = World::new(cfg.to_main_config(), seed);
    let mut served: Vec<usize> = vec![]; // connections the model says hold a slot
    let mut nick_of: std::collections::BTreeMap<usize, String> = Default::default();
    let mut log: Vec<String> = vec![format!("max_connections = {}", m)];
    let mut kinds = std::collections::BTreeSet::new();
    let mut overflow = false;
    let mut reuse = false;
    let fail = |sig: &str, msg: String, log: &Vec<String>| Viol::new("C19.connection_slots", format!("slots:{}", sig), msg).with_transcript(log.clone());
    let steps = 6 + s.pick(24);
    for step in 0..steps {
        let open_more = served.len() < m + 2 && (served.is_empty() || s.chance(55));
        if open_more {
            let c = w.connect();
            w.settle();
            w.send_line(c, "PING probe");
            w.settle();
            let ls = w.drain(c);
            let answers = ls.iter().any(|l| l.contains(" 451 ") || l.contains(" PONG "));
            let expect_served = served.len() < m;
            log.push(format!("open c{}: {} (model: {} of {} slots used)", c, if answers { "served" } else if w.conns[c].eof { "refused" } else { "silent" }, served.len(), m));
            if expect_served {
                if served.len() + 1 == m {
                    // at the brink
                }
                if !answers {
                    return Err(fail(
                        if reuse { "freed-slot-not-reusable" } else { "below-limit-refused" },
                        format!("connection #{} was not served although only {} of {} slots are in use{}", c, served.len(), m, if reuse { " (a slot was freed before)" } else { "" }),
                        &log,
                    ));
                }
                served.push(c);
            } else {
                overflow = true;
                if answers || !w.conns[c].eof || !ls.is_empty() {
                    return Err(fail("over-limit-served", format!("connection #{} was served (or got a reply {:?}) although all {} slots are in use", c, ls, m), &log));
                }
            }
        } else {
            // end one served connection in some way
            let i = s.pick(served.len());
            let c = served[i];
            let kind = s.pick(7);
            let kname = match kind {
                0 => {
                    w.close(c, CloseKind::Drop);
                    "drop-unregistered-or-not"
                }
                1 => {
                    w.send_line(c, "QUIT");
                    "quit"
                }
                2 => {
                    // register (maybe), then quit
                    if !nick_of.contains_key(&c) {
                        if with_pw {
                            w.send_line(c, "PASS srvpass");
                        }
                        let n = format!("s{}", c);
                        w.send_line(c, &format!("NICK {}", n));
                        w.send_line(c, &format!("USER u{} 0 * :Slot", c));
                        w.settle();
                        nick_of.insert(c, n);
                    }
                    w.close(c, CloseKind::HalfClose);
                    "registered-half-close"
                }
                3 => {
                    if with_pw && !nick_of.contains_key(&c) {
                        w.send_line(c, "PASS wrong");
                        w.send_line(c, &format!("NICK r{}", c));
                        w.send_line(c, "USER x 0 * :Refused");
                        "refused-464"
                    } else {
                        w.send_bytes(c, b"\xff\xfe\r\n");
                        "invalid-utf8"
                    }
                }
                4 => {
                    w.send_bytes(c, format!("PING {}\r\n", "z".repeat(2100)).as_bytes());
                    "over-long"
                }
                5 => {
                    w.send_bytes(c, b"PRIVMSG x :unfinished");
                    w.close(c, CloseKind::Drop);
                    "drop-mid-line"
                }
                _ => {
                    // registration refused for a nick in use, then dropped
                    let taken = nick_of.values().next().cloned();
                    if let (Some(t), false) = (taken, nick_of.contains_key(&c)) {
                        w.send_line(c, &format!("NICK {}", t));
                        w.settle();
                    }
                    w.close(c, CloseKind::Drop);
                    "drop-after-433"
                }
            };
            w.settle();
            w.drain(c);
            // fatal input may or may not close the connection; if it is still open, close it
            if !w.conns[c].eof && w.conns[c].io.is_some() {
                w.close(c, CloseKind::Drop);
                w.settle();
            }
            kinds.insert(kname);
            served.remove(i);
            nick_of.remove(&c);
            reuse = true;
            log.push(format!("end c{} by {} (model: {} of {} slots used)", c, kname, served.len(), m));
        }
        let _ = step;
        for p in crate::sim::take_panics() {
            if p.task.is_some() {
                return Err(fail("panic", format!("handler aborted: {} at {}", p.msg, p.loc), &log));
            }
        }
    }
    crate::sim::set_in_sim(false);
    if overflow && reuse {
        st.nontrivial(format!("m{}|{:?}", m, kinds), || json!({"max_connections": m, "end_kinds": kinds, "log": log.iter().take(30).collect::<Vec<_>>()}));
    }
    Ok(())
}

use serde_json::json;

pub fn run_c19(ctx: &RunCtx) -> Vec<PartOutcome> {
    use proptest::prelude::*;
    let mut parts = run_spec(ctx, &C19, 6000, 100000);
    parts.push(explore(
        ctx,
        "connection_slots",
        ctx.tier.pick(3_000, 50_000),
        || prop::collection::vec(any::<u16>(), 80).prop_map(|seeds| SlotCase { seeds }),
        c19_slots,
    ));
    parts.push(explore_with(ctx, "connection_slots_tcp", ctx.tier.pick(24, 300), 20, crate::checks::wirechecks::strat, crate::checks::wirechecks::c19_slots_tcp));
    parts
}

pub fn replay_c19(part: &str, input: &Value) -> Option<Result<Result<(), Viol>, String>> {
    match part {
        "connection_slots" => Some(replay_input::<SlotCase>(input, c19_slots)),
        "connection_slots_tcp" => Some(replay_input::<crate::checks::wirechecks::WireCase>(input, crate::checks::wirechecks::c19_slots_tcp)),
        _ => replay_spec(&C19, part, input),
    }
}
