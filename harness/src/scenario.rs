// Shared scenario machinery for the model-based SIM checks: case format, strategy, step
// judging with predicate ownership, and the read-only probe battery.

use proptest::prelude::*;
use serde_derive::{Deserialize, Serialize};

use crate::engine::{Disc, Engine, StepOut};
use crate::gen::{gen_op, Op, OpSeed, Profile, SEED_W};
use crate::norm;
use crate::runner::{Stats, Viol};

#[derive(Clone, Debug, Serialize, Deserialize)]
pub struct ScCase {
    pub cfg: Vec<u16>,
    pub ops: Vec<Vec<u16>>,
}

pub fn sc_strategy(ncfg: usize, max_ops: usize) -> impl Strategy<Value = ScCase> {
    (
        prop::collection::vec(any::<u16>(), ncfg),
        prop::collection::vec(prop::collection::vec(any::<u16>(), SEED_W), 0..=max_ops),
    )
        .prop_map(|(cfg, ops)| ScCase { cfg, ops })
}

pub fn seed_of(v: &[u16]) -> OpSeed {
    let mut s = [0u16; SEED_W];
    for (i, x) in v.iter().take(SEED_W).enumerate() {
        s[i] = *x;
    }
    s
}

pub enum Verdict {
    Ok,
    Violation(Viol),
    Foreign(String),
}

pub struct Policy<'a> {
    pub id: &'a str,
    // does this property own the discrepancy?
    pub owns: &'a dyn Fn(&Disc, &StepOut) -> bool,
}

pub fn disc_signature(d: &Disc, out: &StepOut) -> String {
    let body: &str = if out.sent.starts_with(':') { out.sent.splitn(2, ' ').nth(1).unwrap_or("").trim_start() } else { out.sent.as_str() };
    let verb = body.split(' ').next().unwrap_or("").to_ascii_uppercase();
    match d {
        Disc::Missing { line, .. } => format!("missing:{}:{}:{}", if line[0] == "S" { "S" } else { "R" }, line[1], verb),
        Disc::Extra { line, .. } => format!("extra:{}:{}:{}", if line[0] == "S" { "S" } else { "R" }, line[1], verb),
        Disc::AnyOf { set, .. } => format!("noneof:{}:{}", set.iter().map(|l| l[1].clone()).collect::<Vec<_>>().join("+"), verb),
        Disc::UnexpectedClose { .. } => format!("unexpected-close:{}", verb),
        Disc::MissingClose { .. } => format!("missing-close:{}", verb),
        Disc::Panic { msg, loc, .. } => {
            // file without line number + message without numbers
            let file = loc.rsplit('/').next().unwrap_or("").split(':').next().unwrap_or("").to_string();
            let m: String = msg.chars().filter(|c| !c.is_ascii_digit()).take(60).collect();
            format!("panic:{}:{}:{}", file, m, verb)
        }
        Disc::Framing { .. } => format!("framing:{}", verb),
        Disc::Malformed { .. } => format!("malformed:{}", verb),
        Disc::ServerQuit { expected } => format!("server-quit:{}:{}", expected, verb),
    }
}

pub fn judge(policy: &Policy, eng: &Engine, out: &StepOut) -> Verdict {
    if out.discs.is_empty() {
        return Verdict::Ok;
    }
    for d in &out.discs {
        if (policy.owns)(d, out) {
            let mut t = eng.tail(60);
            t.push(format!("-- step: {}", out.sent));
            for (c, ls) in &out.exp.must {
                for l in ls {
                    t.push(format!("-- model expects c{}: {}", c, norm::show(l)));
                }
            }
            for d2 in &out.discs {
                t.push(format!("-- discrepancy: {}", d2.describe()));
            }
            return Verdict::Violation(
                Viol::new(
                    &format!("{}.{}", policy.id, disc_signature(d, out).split(':').next().unwrap_or("")),
                    disc_signature(d, out),
                    format!("after `{}`: {}", out.sent, d.describe()),
                )
                .with_transcript(t),
            );
        }
    }
    Verdict::Foreign(out.discs[0].describe())
}

// Apply one generated operation; returns the step outputs (a NewUser is several steps).
pub fn apply_op(eng: &mut Engine, op: &Op) -> Vec<StepOut> {
    match op {
        Op::Multi(v) => {
            let mut outs = vec![];
            for o in v {
                outs.extend(apply_op(eng, o));
            }
            outs
        }
        Op::Connect => {
            eng.connect();
            vec![]
        }
        Op::Line(c, l) => vec![eng.line(*c, l)],
        Op::NewUser { nick, user } => eng.register(nick, user).1,
        Op::Close(c, k) => vec![eng.close(*c, *k)],
    }
}

pub fn next_op(eng: &Engine, prof: &Profile, seed: &[u16]) -> Option<Op> {
    gen_op(&eng.model, prof, &seed_of(seed))
}

// Read-only probe battery from one viewer: every answer is predicted by the model, so any
// divergence of the server's state from the model's shows up as a discrepancy.
pub fn probe_lines(eng: &Engine, viewer: usize, pool_nicks: &[String]) -> Vec<String> {
    let m = &eng.model;
    let Some(vn) = m.nick_of(viewer) else {
        return vec![];
    };
    let mut v = vec![];
    for (ch, co) in &m.chans {
        v.push(format!("NAMES {}", ch));
        v.push(format!("WHO {}", ch));
        if co.members.contains_key(vn) {
            v.push(format!("MODE {}", ch));
            v.push(format!("TOPIC {}", ch));
            // the mask lists, wherever they came from (MODE commands or the configuration)
            if !co.ban.is_empty() {
                v.push(format!("MODE {} +b", ch));
            }
            if !co.except.is_empty() {
                v.push(format!("MODE {} +e", ch));
            }
            if !co.invex.is_empty() {
                v.push(format!("MODE {} +I", ch));
            }
        }
    }
    let nicks: Vec<String> = m.users.keys().cloned().collect();
    for n in &nicks {
        v.push(format!("WHOIS {}", n));
    }
    // WHOWAS of up to three nicks with a history that are not in use now
    for n in m.whowas.keys().filter(|n| !m.users.contains_key(*n)).take(3) {
        v.push(format!("WHOWAS {}", n));
    }
    v.push("LUSERS".to_string());
    v.push("LIST".to_string());
    v.push(format!("ISON {}", pool_nicks.join(" ")));
    v.push(format!("USERHOST {}", pool_nicks.iter().take(5).cloned().collect::<Vec<_>>().join(" ")));
    v.push(format!("MODE {}", vn));
    v
}

pub fn count_tags(st: &mut Stats, out: &StepOut) {
    for t in &out.exp.tags {
        // only the class part (before the 2nd ':') to keep the histogram small
        let mut it = t.splitn(3, ':');
        let a = it.next().unwrap_or("");
        let b = it.next().unwrap_or("");
        st.count(&format!("tag.{}:{}", a, b));
    }
}
