// Scenario generator: turns raw proptest seeds into concrete, *sound* client operations using
// the reference model's current state (generation by construction, no rejection).  Index
// mapping is monotone so that shrinking the seeds moves towards simpler operations.

use crate::model::{ConnSt, Model, Rank};
use crate::sim::CloseKind;

pub const SEED_W: usize = 12;
pub type OpSeed = [u16; SEED_W];

pub struct S<'a> {
    v: &'a [u16],
    i: usize,
}

impl<'a> S<'a> {
    pub fn new(v: &'a [u16]) -> S<'a> {
        S { v, i: 0 }
    }
    pub fn raw(&mut self) -> u16 {
        let x = if self.i < self.v.len() {
            self.v[self.i]
        } else {
            // derived values once the explicit seeds are used up (still a pure function of them)
            let k = self.i;
            let mut h: u32 = 0x9e3779b9 ^ (k as u32).wrapping_mul(0x85ebca6b);
            for &y in self.v {
                h = (h ^ y as u32).wrapping_mul(0x01000193).rotate_left(5);
            }
            (h >> 8) as u16
        };
        self.i += 1;
        x
    }
    // monotone index in 0..n
    pub fn pick(&mut self, n: usize) -> usize {
        if n <= 1 {
            self.raw();
            return 0;
        }
        (self.raw() as usize * n) >> 16
    }
    pub fn chance(&mut self, pct: u32) -> bool {
        // true for the *upper* part of the range so that shrinking (towards 0) turns options off
        (self.raw() as u32 * 100) >> 16 >= 100 - pct.min(100)
    }
    pub fn choose<'b, T>(&mut self, xs: &'b [T]) -> &'b T {
        &xs[self.pick(xs.len())]
    }
}

#[derive(Clone, Copy, Debug, PartialEq, Eq, Hash, PartialOrd, Ord)]
pub enum K {
    Ping,
    Join,
    Part,
    Privmsg,
    Notice,
    Nick,
    Kick,
    Topic,
    Invite,
    ModeChan,
    ModeUser,
    Oper,
    Away,
    Quit,
    Drop,
    NewUser,
    Names,
    Who,
    Whois,
    List,
    Lusers,
    Ison,
    Userhost,
    Wallops,
    Kill,
    Whowas,
    Die,
    Squit,
    Stats,
    RawConnect,
    RegLine,
    DropUnreg,
    Contend,
    CapPost,
}

#[derive(Clone, Debug)]
pub enum Op {
    Multi(Vec<Op>),
    Connect,
    Line(usize, String),
    NewUser { nick: String, user: String },
    Close(usize, CloseKind),
}

#[derive(Clone, Debug)]
pub struct Profile {
    pub weights: Vec<(K, u32)>,
    pub nicks: Vec<String>,
    pub chans: Vec<String>,
    pub max_conns: usize,
    pub oper_names: Vec<(String, String)>, // (name, password) known to the generator
    pub reg_passwords: Vec<String>,        // passwords tried by registering connections
    pub reg_usernames: Vec<String>,        // extra USER names (configured users)
    pub reg_nicks: Vec<String>,            // nicks contended for by registering connections
}

pub const TEXTS: &[&str] = &[
    "hello",
    "hello world",
    ":leading colon",
    "a:b",
    "  two  spaces ",
    "\u{e9} \u{df} \u{65e5}\u{672c}",
    "trailing ",
    "#c0",
    "n1",
    "+o",
    "\u{1}ACTION waves\u{1}",
    "!@#$%^&*()",
    "x",
    ":-)",
    ":",
    "",
    "a  b   c",
    " :",
    "x:y:z",
    "tab\there",
    "ends with colon:",
    "   ",
    " ",
    "0123456789abcdefghijklmnopqrstuvwxyzABCDEFGHIJKLMNOPQRSTUVWXYZ0123456789abcdefghijklmnopqrstuvwxyzABCDEFGHIJKLMNOPQRSTUVWXYZ0123456789abcdefghijklmnopqrstuvwxyzABCDEFGHIJKLMNOPQRSTUVWXYZ and so on",
];

impl Profile {
    pub fn base() -> Profile {
        Profile {
            weights: vec![],
            // names that differ only in letter case are different names for this server: one such
            // pair in each pool keeps case-folding on a single code path visible everywhere
            nicks: (0..8).map(|i| format!("n{}", i)).chain(std::iter::once("N0".to_string())).collect(),
            chans: vec!["#c0".into(), "#c1".into(), "#c2".into(), "&l0".into(), "#Mixed".into(), "#mixed".into(), "#do.t".into(), "#x".into()],
            max_conns: 6,
            oper_names: vec![],
            reg_passwords: vec![],
            reg_usernames: vec![],
            reg_nicks: vec![],
        }
    }
    pub fn with(mut self, w: &[(K, u32)]) -> Profile {
        self.weights = w.to_vec();
        self
    }
}

pub const GATED: &[&str] = &[
    "JOIN #c0",
    "PRIVMSG n0 :hi from nobody",
    "PRIVMSG #c0 :hi channel",
    "NOTICE n0 :psst",
    "MODE #c0 +m",
    "MODE n0 +i",
    "TOPIC #c0 :taken over",
    "OPER op0 operpw0",
    "KILL n0 :bye",
    "KICK #c0 n0",
    "INVITE n0 #c0",
    "PART #c0",
    "AWAY :nobody home",
    "WALLOPS :hello ops",
    "WHO *",
    "WHO #c0",
    "WHOIS n0",
    "WHOWAS n0",
    "NAMES",
    "NAMES #c0",
    "LIST",
    "LUSERS",
    "ISON n0 n1",
    "USERHOST n0",
    "PING x",
    "PONG x",
    "MOTD",
    "VERSION",
    "ADMIN",
    "TIME",
    "INFO",
    "LINKS",
    "HELP",
    "STATS u",
    "DIE",
    "SQUIT irc.irc :bye",
    "REHASH",
    "RESTART",
    "CONNECT a.b",
];

pub fn unregistered_conns(m: &Model) -> Vec<usize> {
    (0..m.conns.len())
        .filter(|c| matches!(m.conns[*c].st, crate::model::ConnSt::Unreg { .. }))
        .collect()
}

pub fn registered_conns(m: &Model) -> Vec<usize> {
    (0..m.conns.len()).filter(|c| m.is_registered(*c)).collect()
}

fn free_nicks(m: &Model, p: &Profile) -> Vec<String> {
    p.nicks.iter().filter(|n| !m.users.contains_key(*n)).cloned().collect()
}

fn user_of_nick(n: &str) -> String {
    // (three pool nicks stand for clients whose user name contains mask syntax: the text a mask
    // is matched against is the whole nick!user@host, whatever the user name looks like)
    match n {
        "nat" => "ev@x".to_string(),
        "nex" => "a!b".to_string(),
        "nst" => "u*".to_string(),
        _ => format!("u{}", n.trim_start_matches('n')),
    }
}

// masks derived from a source so that matching and near-miss masks are both common
pub fn derive_mask(src: &str, s: &mut S) -> String {
    let (nick, rest) = src.split_once('!').unwrap_or((src, "~u@h"));
    let (user, host) = rest.split_once('@').unwrap_or((rest, "h"));
    let k = s.pick(16);
    match k {
        0 => format!("{}!*@*", nick),
        1 => nick.to_string(),
        2 => format!("*!*@{}", host),
        3 => format!("*!{}@*", user),
        4 => src.to_string(),
        5 => "*".to_string(),
        6 => format!("{}@{}", nick, host),
        7 => format!("{}!{}", nick, user),
        8 => {
            // '?' for one character of the nick
            let mut cs: Vec<char> = nick.chars().collect();
            if !cs.is_empty() {
                let i = s.pick(cs.len());
                cs[i] = '?';
            }
            format!("{}!*@*", cs.iter().collect::<String>())
        }
        9 => {
            // host prefix with wildcard
            let cut = host.rfind('.').map(|i| i + 1).unwrap_or(0);
            format!("*!*@{}*", &host[..cut])
        }
        10 => format!("*{}", &src[src.len().saturating_sub(4)..]),
        11 => format!("{}*", &src[..3.min(src.len())]),
        12 => {
            // near miss: one character more than the text offers (a literal, or a surplus '?')
            format!("*!*@{}{}", host, if s.chance(50) { "9" } else { "?" })
        }
        13 => {
            // near miss: one character altered
            let mut cs: Vec<char> = src.chars().collect();
            let i = s.pick(cs.len());
            cs[i] = if cs[i] == 'x' { 'y' } else { 'x' };
            cs.iter().collect()
        }
        14 => format!("{}?!*@*", nick),
        _ => format!("*!*{}@{}", &user[1.min(user.len())..], host),
    }
}

fn any_source(m: &Model, p: &Profile, s: &mut S) -> String {
    // source of an existing user or of a pool nick that may connect later
    let users: Vec<&crate::model::MUser> = m.users.values().collect();
    if !users.is_empty() && s.chance(70) {
        users[s.pick(users.len())].source()
    } else {
        let i = s.pick(p.nicks.len());
        format!("{}!~u{}@10.0.0.{}", p.nicks[i], i, 1 + s.pick(8))
    }
}

fn chan_pick(m: &Model, p: &Profile, s: &mut S, prefer_existing: bool) -> String {
    let existing: Vec<String> = m.chans.keys().cloned().collect();
    if prefer_existing && !existing.is_empty() && s.chance(80) {
        existing[s.pick(existing.len())].clone()
    } else {
        let mut all = p.chans.clone();
        for c in existing {
            if !all.contains(&c) {
                all.push(c);
            }
        }
        all[s.pick(all.len())].clone()
    }
}

fn member_chan(m: &Model, nick: &str, s: &mut S) -> Option<String> {
    let v: Vec<&String> = m.users[nick].chans.iter().collect();
    if v.is_empty() {
        None
    } else {
        Some(v[s.pick(v.len())].clone())
    }
}

fn nick_pick(m: &Model, p: &Profile, s: &mut S, prefer_existing: bool) -> String {
    let existing: Vec<&String> = m.users.keys().collect();
    if prefer_existing && !existing.is_empty() && s.chance(85) {
        existing[s.pick(existing.len())].clone()
    } else {
        p.nicks[s.pick(p.nicks.len())].clone()
    }
}

pub fn mode_string(m: &Model, p: &Profile, actor: &str, ch: &str, s: &mut S) -> String {
    let members: Vec<String> = m.chans.get(ch).map(|c| c.members.keys().cloned().collect()).unwrap_or_default();
    let n = 1 + s.pick(4);
    let mut out = String::new();
    let mut args: Vec<String> = vec![];
    let mut cur_sign = ' ';
    let mut used_lk = false;
    let letters = ['v', 'o', 'h', 'b', 'i', 'm', 't', 'n', 's', 'k', 'l', 'e', 'I', 'a', 'q'];
    for _ in 0..n {
        let l = letters[s.pick(letters.len())];
        let plus = !s.chance(35);
        if used_lk && "vohaqbeIkl".contains(l) {
            // keep +k/+l last among parameter letters (see DESIGN: argument-shift don't-care)
            continue;
        }
        let sign = if plus { '+' } else { '-' };
        if sign != cur_sign {
            out.push(sign);
            cur_sign = sign;
        }
        out.push(l);
        match l {
            'v' | 'o' | 'h' | 'a' | 'q' => {
                let t = if !members.is_empty() && s.chance(85) {
                    members[s.pick(members.len())].clone()
                } else {
                    p.nicks[s.pick(p.nicks.len())].clone()
                };
                args.push(t);
            }
            'b' | 'e' | 'I' => {
                if s.chance(90) {
                    // when removing, prefer a mask that is in the list
                    let list: Vec<String> = m
                        .chans
                        .get(ch)
                        .map(|c| match l {
                            'b' => c.ban.iter().cloned().collect(),
                            'e' => c.except.iter().cloned().collect(),
                            _ => c.invex.iter().cloned().collect(),
                        })
                        .unwrap_or_default();
                    if !plus && !list.is_empty() && s.chance(80) {
                        let stored = list[s.pick(list.len())].clone();
                        // half of the time name the stored mask by one of its short forms
                        // (nick -> nick!*@*, nick@host -> nick!*@host, nick!user -> nick!user@*)
                        let short = if let Some(x) = stored.strip_suffix("!*@*") {
                            x.to_string()
                        } else if let Some(x) = stored.strip_suffix("@*") {
                            x.to_string()
                        } else if stored.contains("!*@") {
                            stored.replacen("!*@", "@", 1)
                        } else {
                            stored.clone()
                        };
                        let usable = !short.is_empty() && !short.starts_with(':');
                        if s.chance(50) && usable && crate::refglob::normalise(&short) == stored {
                            args.push(short);
                        } else {
                            args.push(stored);
                        }
                    } else {
                        let src = any_source(m, p, s);
                        args.push(derive_mask(&src, s));
                    }
                } else {
                    // list query: must be the last parameter-taking letter of the string
                    break;
                }
            }
            'k' => {
                if plus {
                    args.push(["k1", "k2"][s.pick(2)].to_string());
                    used_lk = true;
                }
            }
            'l' => {
                if plus {
                    let occ = members.len();
                    let v = [occ, occ + 1, occ.saturating_sub(1), 1, 0, 10][s.pick(6)];
                    args.push(v.to_string());
                    used_lk = true;
                }
            }
            _ => {}
        }
    }
    let _ = actor;
    if out.is_empty() {
        out = "+t".to_string();
    }
    if args.is_empty() {
        out
    } else {
        format!("{} {}", out, args.join(" "))
    }
}

pub fn gen_op(m: &Model, p: &Profile, seed: &OpSeed) -> Option<Op> {
    let mut s = S::new(seed);
    let total: u32 = p.weights.iter().map(|w| w.1).sum();
    if total == 0 {
        return None;
    }
    let mut r = (s.raw() as u64 * total as u64 >> 16) as u32;
    let mut kind = p.weights[0].0;
    for (k, w) in &p.weights {
        if r < *w {
            kind = *k;
            break;
        }
        r -= w;
    }
    let regs = registered_conns(m);
    if kind == K::Contend {
        // two fresh connections claim the same nick; the second one completes first, so the first
        // is refused at completion (433) - then it acts, renames, or goes away
        let open = (0..m.conns.len()).filter(|c| m.is_open(*c)).count();
        if open + 2 > p.max_conns + 2 {
            return Some(Op::Line(*regs.get(0)?, "PING nocontend".into()));
        }
        let nicks = if p.reg_nicks.is_empty() { &p.nicks } else { &p.reg_nicks };
        let n = nicks[s.pick(nicks.len())].clone();
        let a = m.conns.len();
        let b = a + 1;
        let pass = p.reg_passwords.get(0).cloned();
        let mut v = vec![Op::Connect, Op::Connect];
        if let Some(pw) = &pass {
            v.push(Op::Line(a, format!("PASS {}", pw)));
            v.push(Op::Line(b, format!("PASS {}", pw)));
        }
        // sometimes the claimant negotiates capabilities first (registration completes at CAP END)
        let capneg = s.chance(25);
        if capneg {
            v.push(Op::Line(a, ["CAP LS 302", "CAP REQ :multi-prefix"][s.pick(2)].to_string()));
        }
        v.push(Op::Line(a, format!("NICK {}", n)));
        match s.pick(3) {
            0 => {
                v.push(Op::Line(b, format!("NICK {}", n)));
                v.push(Op::Line(b, format!("USER u{} 0 * :Real c{}", b, b)));
            }
            1 => {
                v.push(Op::Line(b, format!("USER u{} 0 * :Real c{}", b, b)));
                v.push(Op::Line(b, format!("NICK {}", n)));
            }
            _ => {
                // a registered user renames onto the claimed nick instead
                if let Some(r) = regs.get(s.pick(regs.len().max(1))) {
                    v.push(Op::Line(*r, format!("NICK {}", n)));
                }
            }
        }
        // (the claimant sometimes logs in as a user from the configuration)
        let cfg_name = if !p.reg_usernames.is_empty() && s.chance(35) { Some(p.reg_usernames[s.pick(p.reg_usernames.len())].clone()) } else { None };
        if let (Some(_), true) = (&cfg_name, p.reg_passwords.len() > 1) {
            v.push(Op::Line(a, format!("PASS {}", p.reg_passwords[s.pick(p.reg_passwords.len())])));
        }
        v.push(Op::Line(a, format!("USER {} 0 * :Real c{}", cfg_name.clone().unwrap_or_else(|| format!("u{}", a)), a)));
        if capneg {
            v.push(Op::Line(a, "CAP END".to_string()));
        }
        // what the refused connection does next
        match s.pick(10) {
            7 | 8 | 9 => {
                // it retries under another user name and another nick: nothing of the refused
                // attempt (user name, "configured user" status) may stick
                let other = if cfg_name.is_some() || p.reg_usernames.is_empty() || s.chance(50) {
                    format!("u{}x", a)
                } else {
                    p.reg_usernames[s.pick(p.reg_usernames.len())].clone()
                };
                v.push(Op::Line(a, format!("USER {} 0 * :Retry c{}", other, a)));
                let free: Vec<String> = nicks.iter().filter(|x| **x != n && !m.users.contains_key(*x)).cloned().collect();
                if !free.is_empty() {
                    v.push(Op::Line(a, format!("NICK {}", free[s.pick(free.len())])));
                }
            }
            0 => v.push(Op::Line(a, GATED[s.pick(GATED.len())].to_string())),
            1 => v.push(Op::Line(a, format!("NICK {}", nicks[s.pick(nicks.len())]))),
            2 => v.push(Op::Close(a, CloseKind::Drop)),
            3 => v.push(Op::Line(a, "QUIT".into())),
            4 => {
                v.push(Op::Line(a, format!("PRIVMSG {} :who am i", n)));
                v.push(Op::Line(a, "JOIN #c0".into()));
                v.push(Op::Close(a, CloseKind::Drop));
            }
            5 => v.push(Op::Close(a, CloseKind::HalfClose)),
            _ => {
                v.push(Op::Line(a, format!("NICK {}", n)));
                v.push(Op::Line(a, "MODE #c0 +m".into()));
            }
        }
        return Some(Op::Multi(v));
    }
    if matches!(kind, K::RawConnect | K::RegLine | K::DropUnreg) {
        let unreg = unregistered_conns(m);
        let open = (0..m.conns.len()).filter(|c| m.is_open(*c)).count();
        if kind == K::RawConnect || unreg.is_empty() {
            if open < p.max_conns {
                return Some(Op::Connect);
            }
            if unreg.is_empty() {
                return None;
            }
        }
        let c = unreg[s.pick(unreg.len())];
        if kind == K::DropUnreg {
            return Some(Op::Close(c, if s.chance(30) { CloseKind::HalfClose } else { CloseKind::Drop }));
        }
        let nicks = if p.reg_nicks.is_empty() { &p.nicks } else { &p.reg_nicks };
        // a connection that has sent NICK and USER and is still not registered was refused at
        // completion (nick taken, wrong password, mask): it typically retries with another user
        // name, another nick or another password - whatever it tried before must not stick
        if let ConnSt::Unreg { nick: Some(_), user: Some((un, _)), capneg: false, .. } = &m.conns[c].st {
            if s.chance(50) {
                let line = match s.pick(5) {
                    0 | 1 => {
                        let other = if p.reg_usernames.contains(un) || p.reg_usernames.is_empty() || s.chance(40) {
                            format!("u{}x", c)
                        } else {
                            p.reg_usernames[s.pick(p.reg_usernames.len())].clone()
                        };
                        format!("USER {} 0 * :Retry c{}", other, c)
                    }
                    2 | 3 => {
                        let free = free_nicks(m, p);
                        if free.is_empty() {
                            format!("NICK {}", nicks[s.pick(nicks.len())])
                        } else {
                            format!("NICK {}", free[s.pick(free.len())])
                        }
                    }
                    _ => {
                        if p.reg_passwords.is_empty() {
                            "PASS nopassword".to_string()
                        } else {
                            format!("PASS {}", p.reg_passwords[s.pick(p.reg_passwords.len())])
                        }
                    }
                };
                return Some(Op::Line(c, line));
            }
        }
        let line = match s.pick(14) {
            0 | 1 | 2 => {
                // a nick somebody holds is asked for on purpose (refusal at completion)
                let taken: Vec<&String> = m.users.keys().collect();
                if !taken.is_empty() && s.chance(35) {
                    format!("NICK {}", taken[s.pick(taken.len())])
                } else {
                    format!("NICK {}", nicks[s.pick(nicks.len())])
                }
            }
            3 | 4 | 5 => {
                let un = if !p.reg_usernames.is_empty() && s.chance(50) {
                    p.reg_usernames[s.pick(p.reg_usernames.len())].clone()
                } else {
                    format!("u{}", c)
                };
                format!("USER {} 0 * :Real c{}", un, c)
            }
            6 => {
                if p.reg_passwords.is_empty() {
                    "PASS nopassword".to_string()
                } else {
                    // (sent as a trailing parameter; sometimes with a blank added at one end: that is
                    // a different password)
                    let pw = p.reg_passwords[s.pick(p.reg_passwords.len())].clone();
                    match s.pick(9) {
                        // (an empty password is a password too: it replaces an earlier one)
                        8 => "PASS :".to_string(),
                        0 => format!("PASS :{} ", pw),
                        1 => format!("PASS : {}", pw),
                        2 | 3 => format!("PASS :{}", pw),
                        _ => format!("PASS {}", pw),
                    }
                }
            }
            7 => "CAP LS 302".to_string(),
            8 => "CAP END".to_string(),
            9 => ["CAP REQ :multi-prefix", "CAP REQ :bogus-cap", "CAP LIST", "AUTHENTICATE PLAIN"][s.pick(4)].to_string(),
            10 => "QUIT".to_string(),
            _ => GATED[s.pick(GATED.len())].to_string(),
        };
        return Some(Op::Line(c, line));
    }
    if kind == K::NewUser || regs.is_empty() {
        let free = free_nicks(m, p);
        let open = (0..m.conns.len()).filter(|c| m.is_open(*c)).count();
        if free.is_empty() || open >= p.max_conns {
            if regs.is_empty() {
                return None;
            }
            kind = K::Ping;
        } else {
            let n = free[s.pick(free.len())].clone();
            return Some(Op::NewUser { user: user_of_nick(&n), nick: n });
        }
    }
    let c = regs[s.pick(regs.len())];
    let nick = m.nick_of(c).unwrap().to_string();
    let line = match kind {
        K::Ping => format!("PING t{}", s.pick(10)),
        K::Join => {
            let n = 1 + if s.chance(25) { 1 + s.pick(2) } else { 0 };
            let mut chans: Vec<String> = vec![];
            for _ in 0..n {
                let ch = chan_pick(m, p, &mut s, true);
                let member = m.chans.get(&ch).map_or(false, |c| c.members.contains_key(&nick));
                // a channel the user is already on may appear inside a longer list
                let allow_member = n > 1 && s.chance(35);
                if !chans.contains(&ch) && (!member || allow_member) {
                    chans.push(ch);
                }
            }
            if chans.is_empty() {
                // fall back to any channel the user is not on
                for ch in &p.chans {
                    if !m.users[&nick].chans.contains(ch) {
                        chans.push(ch.clone());
                        break;
                    }
                }
            }
            if chans.is_empty() {
                return Some(Op::Line(c, "PING nojoin".into()));
            }
            // the same name twice in one list (unusual input; the replies of that command are
            // not judged, the resulting state is)
            if s.chance(6) {
                let d = chans[s.pick(chans.len())].clone();
                chans.push(d);
            }
            let any_key = chans.iter().any(|ch| m.chans.get(ch).map_or(false, |c| c.key.is_some()));
            if any_key || s.chance(10) {
                let mode = s.pick(10);
                let keys: Vec<String> = chans
                    .iter()
                    .map(|ch| match m.chans.get(ch).and_then(|c| c.key.clone()) {
                        Some(k) if mode < 6 => k,
                        Some(_) => "wrong".to_string(),
                        // (a keyless channel gets a dummy key or an empty place in the list)
                        None => if s.chance(30) { String::new() } else { "x".to_string() },
                    })
                    .collect();
                if mode == 9 {
                    format!("JOIN {}", chans.join(","))
                } else {
                    format!("JOIN {} {}", chans.join(","), keys.join(","))
                }
            } else {
                format!("JOIN {}", chans.join(","))
            }
        }
        K::Part => {
            let mut chans = vec![];
            let n = 1 + if s.chance(20) { 1 } else { 0 };
            for _ in 0..n {
                let ch = if s.chance(85) {
                    member_chan(m, &nick, &mut s).unwrap_or_else(|| chan_pick(m, p, &mut s, true))
                } else {
                    chan_pick(m, p, &mut s, false)
                };
                if !chans.contains(&ch) {
                    chans.push(ch);
                }
            }
            if chans.len() == 1 && s.chance(12) {
                chans.insert(0, ["#nosuch", "#c2", "&l0"][s.pick(3)].to_string());
                chans.dedup();
            }
            // the same channel named twice in one list
            if s.chance(10) {
                let d = chans[s.pick(chans.len())].clone();
                chans.push(d);
            }
            if s.chance(40) {
                format!("PART {} :{}", chans.join(","), s.choose(TEXTS))
            } else {
                format!("PART {}", chans.join(","))
            }
        }
        K::Privmsg | K::Notice => {
            let verb = if kind == K::Privmsg { "PRIVMSG" } else { "NOTICE" };
            let n = 1 + if s.chance(35) { 1 + s.pick(3) } else { 0 };
            let mut targets: Vec<String> = vec![];
            for _ in 0..n {
                let k = s.pick(10);
                let t = match k {
                    0..=3 => member_chan(m, &nick, &mut s).unwrap_or_else(|| chan_pick(m, p, &mut s, true)),
                    4 => chan_pick(m, p, &mut s, false),
                    5 | 6 => {
                        // status-prefixed channel
                        let ch = member_chan(m, &nick, &mut s).unwrap_or_else(|| chan_pick(m, p, &mut s, true));
                        let mut pre = String::new();
                        let bits = 1 + s.pick(31);
                        for (i, pc) in ['~', '&', '@', '%', '+'].iter().enumerate() {
                            if bits >> i & 1 == 1 {
                                pre.push(*pc);
                            }
                        }
                        format!("{}{}", pre, ch)
                    }
                    7 | 8 => nick_pick(m, p, &mut s, true),
                    _ => nick_pick(m, p, &mut s, false),
                };
                targets.push(t);
            }
            if s.chance(15) && !targets.is_empty() {
                let d = targets[0].clone();
                targets.push(d);
            }
            // rarely the text is a middle parameter and more parameters follow: the text is the
            // second parameter, whatever comes after it
            if s.chance(6) {
                format!("{} {} {} :{}", verb, targets.join(","), ["Hello", "x", "a:b", "#c0"][s.pick(4)], s.choose(TEXTS))
            } else {
                format!("{} {} :{}", verb, targets.join(","), s.choose(TEXTS))
            }
        }
        K::Nick => {
            let k = if s.chance(4) { 10 } else { s.pick(10) };
            let new = match k {
                10 => {
                    // nicks at and just beyond the advertised NICKLEN=200 (the server does not
                    // enforce a length: both are ordinary, different nicks)
                    let l200: String = std::iter::repeat('L').take(200).collect();
                    if m.users.contains_key(&l200) || s.chance(50) {
                        format!("{}x", l200)
                    } else {
                        l200
                    }
                }
                0..=5 => {
                    let free = free_nicks(m, p);
                    if free.is_empty() {
                        "zz9".to_string()
                    } else {
                        free[s.pick(free.len())].clone()
                    }
                }
                6 | 7 => {
                    // taken by somebody else
                    let others: Vec<&String> = m.users.keys().filter(|n| **n != nick).collect();
                    if others.is_empty() {
                        "zz8".to_string()
                    } else {
                        others[s.pick(others.len())].clone()
                    }
                }
                8 => {
                    if s.chance(35) {
                        // the own nick with the case of its first letter flipped (a different nick)
                        let mut cs: Vec<char> = nick.chars().collect();
                        if let Some(c0) = cs.get_mut(0) {
                            *c0 = if c0.is_ascii_lowercase() { c0.to_ascii_uppercase() } else { c0.to_ascii_lowercase() };
                        }
                        cs.into_iter().collect()
                    } else {
                        ["a.b", "#x", "a,b", "&y", "#", "&", "a:b"][s.pick(7)].to_string()
                    }
                }
                _ => {
                    // previously used (has a WHOWAS record) if any
                    let old: Vec<&String> = m.whowas.keys().filter(|n| !m.users.contains_key(*n)).collect();
                    if old.is_empty() {
                        "zz7".to_string()
                    } else {
                        old[s.pick(old.len())].clone()
                    }
                }
            };
            if new == nick {
                "PING samenick".to_string()
            } else if s.chance(5) {
                // the old form with a hop count: the nickname is the first parameter
                format!("NICK {} {}", new, ["1", "0", ":x y"][s.pick(3)])
            } else {
                format!("NICK {}", new)
            }
        }
        K::Kick => {
            let ch = if s.chance(90) {
                member_chan(m, &nick, &mut s).unwrap_or_else(|| chan_pick(m, p, &mut s, true))
            } else {
                chan_pick(m, p, &mut s, false)
            };
            let members: Vec<String> = m.chans.get(&ch).map(|c| c.members.keys().cloned().collect()).unwrap_or_default();
            let n = 1 + if s.chance(30) { 1 + s.pick(2) } else { 0 };
            let mut vs: Vec<String> = vec![];
            for _ in 0..n {
                let v = if !members.is_empty() && s.chance(85) {
                    members[s.pick(members.len())].clone()
                } else {
                    p.nicks[s.pick(p.nicks.len())].clone()
                };
                if !vs.contains(&v) {
                    vs.push(v);
                }
            }
            if s.chance(8) && !vs.is_empty() {
                let d = vs[0].clone();
                vs.push(d);
            }
            if s.chance(50) {
                format!("KICK {} {} :{}", ch, vs.join(","), s.choose(TEXTS))
            } else {
                format!("KICK {} {}", ch, vs.join(","))
            }
        }
        K::Topic => {
            let ch = if s.chance(85) {
                member_chan(m, &nick, &mut s).unwrap_or_else(|| chan_pick(m, p, &mut s, true))
            } else {
                chan_pick(m, p, &mut s, false)
            };
            match s.pick(5) {
                0 => format!("TOPIC {}", ch),
                1 => format!("TOPIC {} :", ch),
                _ => format!("TOPIC {} :{}", ch, s.choose(TEXTS)),
            }
        }
        K::Invite => {
            let ch = if s.chance(85) {
                member_chan(m, &nick, &mut s).unwrap_or_else(|| chan_pick(m, p, &mut s, true))
            } else {
                chan_pick(m, p, &mut s, false)
            };
            let t = nick_pick(m, p, &mut s, true);
            format!("INVITE {} {}", t, ch)
        }
        K::ModeChan => {
            let ch = if s.chance(88) {
                member_chan(m, &nick, &mut s).unwrap_or_else(|| chan_pick(m, p, &mut s, true))
            } else {
                chan_pick(m, p, &mut s, false)
            };
            if s.chance(8) {
                format!("MODE {}", ch)
            } else {
                format!("MODE {} {}", ch, mode_string(m, p, &nick, &ch, &mut s))
            }
        }
        K::ModeUser => {
            let target = if s.chance(6) {
                // the own nick in another letter case is somebody else (mostly nobody)
                nick.chars().map(|c| if c.is_ascii_lowercase() { c.to_ascii_uppercase() } else { c.to_ascii_lowercase() }).collect()
            } else if s.chance(80) {
                nick.clone()
            } else {
                nick_pick(m, p, &mut s, true)
            };
            if s.chance(12) {
                format!("MODE {}", target)
            } else {
                let n = 1 + s.pick(3);
                let mut ms = String::new();
                let mut cur = ' ';
                for _ in 0..n {
                    let l = ['i', 'w', 'o', 'O'][s.pick(4)];
                    let sign = if s.chance(40) { '-' } else { '+' };
                    if sign != cur {
                        ms.push(sign);
                        cur = sign;
                    }
                    ms.push(l);
                }
                format!("MODE {} {}", target, ms)
            }
        }
        K::Oper => {
            if p.oper_names.is_empty() {
                "OPER nobody nopass".to_string()
            } else {
                let (n, pw) = p.oper_names[s.pick(p.oper_names.len())].clone();
                match s.pick(6) {
                    0..=3 => format!("OPER {} {}", n, pw),
                    4 => format!("OPER {} wrong{}", n, pw),
                    _ => {
                        if s.chance(50) {
                            format!("OPER x{} {}", n, pw)
                        } else {
                            // the configured name in another letter case is another name
                            let flipped: String = n.chars().map(|c| if c.is_ascii_lowercase() { c.to_ascii_uppercase() } else { c.to_ascii_lowercase() }).collect();
                            format!("OPER {} {}", flipped, pw)
                        }
                    }
                }
            }
        }
        K::Away => {
            if s.chance(70) {
                format!("AWAY :{}", ["gone", "be right back", "a:b c", "gone", "", " "][s.pick(6)])
            } else {
                "AWAY".to_string()
            }
        }
        K::Quit => "QUIT".to_string(),
        K::Drop => {
            return Some(Op::Close(c, if s.chance(30) { CloseKind::HalfClose } else { CloseKind::Drop }));
        }
        K::Names => {
            if s.chance(15) {
                "NAMES".to_string()
            } else {
                let n = 1 + if s.chance(25) { 1 } else { 0 };
                let mut chans: Vec<String> = vec![];
                for _ in 0..n {
                    let ch = chan_pick(m, p, &mut s, true);
                    if !chans.contains(&ch) {
                        chans.push(ch);
                    }
                }
                format!("NAMES {}", chans.join(","))
            }
        }
        K::Who => match s.pick(8) {
            6 | 7 => {
                // a mask whose only wildcards are '?' (one or two characters of a nick / source)
                let base = if s.chance(60) { nick_pick(m, p, &mut s, true) } else { any_source(m, p, &mut s) };
                let mut cs: Vec<char> = base.chars().collect();
                for _ in 0..(1 + s.pick(2)) {
                    if !cs.is_empty() {
                        let i = s.pick(cs.len());
                        cs[i] = '?';
                    }
                }
                format!("WHO {}", cs.into_iter().collect::<String>())
            }
            0 | 1 | 2 => format!("WHO {}", chan_pick(m, p, &mut s, true)),
            3 => format!("WHO {}", nick_pick(m, p, &mut s, true)),
            4 => "WHO *".to_string(),
            _ => {
                let src = any_source(m, p, &mut s);
                format!("WHO {}", derive_mask(&src, &mut s))
            }
        },
        K::Whois => {
            let n = 1 + if s.chance(25) { 1 } else { 0 };
            let mut ns: Vec<String> = vec![];
            for _ in 0..n {
                let x = if s.chance(15) {
                    ["n*", "n?", "*", "*1"][s.pick(4)].to_string()
                } else {
                    nick_pick(m, p, &mut s, true)
                };
                if !ns.contains(&x) {
                    ns.push(x);
                }
            }
            format!("WHOIS {}", ns.join(","))
        }
        K::List => {
            if s.chance(50) {
                "LIST".to_string()
            } else {
                format!("LIST {}", chan_pick(m, p, &mut s, true))
            }
        }
        K::Lusers => "LUSERS".to_string(),
        K::Ison => {
            if s.chance(12) {
                // a long list: somebody present, whole blocks of absent nicks, somebody present
                let present: Vec<String> = m.users.keys().cloned().collect();
                let mut ns: Vec<String> = vec![];
                ns.push(present[s.pick(present.len())].clone());
                let pad = s.pick(20);
                for i in 0..(19 + pad) {
                    ns.push(format!("absent{}", i));
                }
                ns.push(present[s.pick(present.len())].clone());
                for i in 0..(20 + s.pick(3)) {
                    ns.push(format!("gone{}", i));
                }
                ns.push(present[s.pick(present.len())].clone());
                ns.dedup();
                format!("ISON {}", ns.join(" "))
            } else {
                let n = 1 + s.pick(4);
                let ns: Vec<String> = (0..n).map(|_| nick_pick(m, p, &mut s, false)).collect();
                format!("ISON {}", ns.join(" "))
            }
        }
        K::Userhost => {
            let n = 1 + s.pick(4);
            let ns: Vec<String> = (0..n).map(|_| nick_pick(m, p, &mut s, false)).collect();
            format!("USERHOST {}", ns.join(" "))
        }
        K::Wallops => format!("WALLOPS :{}", s.choose(TEXTS)),
        K::Kill => format!("KILL {} :{}", nick_pick(m, p, &mut s, true), s.choose(TEXTS)),
        K::Whowas => {
            // half of the time a nickname with a history - one that is in use again, if there is one
            let hist: Vec<&String> = m.whowas.keys().collect();
            let reused: Vec<&String> = hist.iter().cloned().filter(|n| m.users.contains_key(n.as_str())).collect();
            if !reused.is_empty() && s.chance(35) {
                format!("WHOWAS {}", reused[s.pick(reused.len())])
            } else if !hist.is_empty() && s.chance(30) {
                format!("WHOWAS {}", hist[s.pick(hist.len())])
            } else {
                format!("WHOWAS {}", nick_pick(m, p, &mut s, false))
            }
        }
        K::CapPost => ["CAP END", "CAP END", "CAP LS 302", "CAP REQ :multi-prefix", "CAP LIST", "CAP REQ :bogus-cap", "PASS again", "USER again 0 * :Again", "USER mallory 0 * :Mallory"][s.pick(9)].to_string(),
        K::Die => {
            if s.chance(50) {
                "DIE".to_string()
            } else {
                format!("DIE :{}", s.choose(TEXTS))
            }
        }
        K::Squit => {
            if s.chance(75) {
                format!("SQUIT {} :bye", crate::cfgspec::SERVER_NAME)
            } else {
                "SQUIT other.server :bye".to_string()
            }
        }
        K::Stats => format!("STATS {}", ["u", "m", "o"][s.pick(3)]),
        K::NewUser | K::RawConnect | K::RegLine | K::DropUnreg | K::Contend => unreachable!(),
    };
    // A client may put a ':source' prefix in front of its own lines; the server accepts any
    // syntactically valid one and ignores it: what it relays carries the sender's real source.
    let line = if s.chance(4) {
        let other: Option<String> = m.users.values().find(|u| u.nick != nick).map(|u| u.source());
        let src = match s.pick(4) {
            0 => nick.clone(),
            1 => other.unwrap_or_else(|| nick.clone()),
            2 => "ghost!~nobody@192.0.2.1".to_string(),
            _ => m.users.get(&nick).map(|u| u.source()).unwrap_or_else(|| nick.clone()),
        };
        format!(":{} {}", src, line)
    } else {
        line
    };
    Some(Op::Line(c, line))
}

pub fn rank_letters(r: &Rank) -> String {
    r.letters()
}
