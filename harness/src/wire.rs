// WIRE mini-engine: the repository's `run_server` (real accept loop, real TCP on loopback) on a
// multi-thread runtime.  Optional everywhere: if the loopback address cannot be bound the part
// using it is skipped (counter), never reported as a violation; a real-time wait that expires
// makes the case inconclusive.

use std::sync::Arc;
use std::time::Duration;
use tokio::io::{AsyncReadExt, AsyncWriteExt};
use tokio::net::TcpStream;
use tokio::runtime::{Builder, Runtime};

use crate::{run_server, MainConfig, MainState};

pub struct WireConn {
    pub io: Option<TcpStream>,
    pub buf: Vec<u8>,
    pub lines: Vec<String>,
    pub eof: bool,
    pub reset: bool,
}

pub struct WireWorld {
    pub rt: Runtime,
    pub state: Arc<MainState>,
    pub port: u16,
    pub conns: Vec<WireConn>,
}

pub const WAIT: Duration = Duration::from_secs(4);

impl WireWorld {
    // None = loopback not available here
    pub fn new(mut cfg: MainConfig, seed: u64) -> Option<WireWorld> {
        crate::sim::install_mt_panic_hook();
        crate::sim::MT_ACTIVE.store(true, std::sync::atomic::Ordering::SeqCst);
        let rt = Builder::new_multi_thread().worker_threads(3).thread_name("sirc-mt").enable_all().build().ok()?;
        cfg.listen = "127.0.0.1".parse().unwrap();
        for attempt in 0..20u64 {
            let port = 21000 + ((seed.wrapping_mul(7919).wrapping_add(attempt * 131) + std::process::id() as u64 * 17) % 30000) as u16;
            let mut c2 = clone_cfg(&cfg);
            c2.port = port;
            let r = rt.block_on(async { run_server(c2).await.map_err(|e| e.to_string()) });
            if let Ok((state, _handle)) = r {
                return Some(WireWorld { rt, state, port, conns: vec![] });
            }
        }
        None
    }

    pub fn connect(&mut self) -> Option<usize> {
        let port = self.port;
        let s = self.rt.block_on(async { tokio::time::timeout(WAIT, TcpStream::connect(("127.0.0.1", port))).await }).ok()?.ok()?;
        let _ = s.set_nodelay(true);
        self.conns.push(WireConn { io: Some(s), buf: vec![], lines: vec![], eof: false, reset: false });
        Some(self.conns.len() - 1)
    }

    pub fn send(&mut self, c: usize, line: &str) {
        if let Some(io) = self.conns[c].io.as_mut() {
            let b = format!("{}\r\n", line);
            let _ = self.rt.block_on(async { io.write_all(b.as_bytes()).await });
        }
    }

    pub fn send_bytes(&mut self, c: usize, b: &[u8]) {
        if let Some(io) = self.conns[c].io.as_mut() {
            let _ = self.rt.block_on(async { io.write_all(b).await });
        }
    }

    pub fn read_until(&mut self, c: usize, timeout: Duration, done: &dyn Fn(&[String]) -> bool) -> bool {
        let conn = &mut self.conns[c];
        if done(&conn.lines) {
            return true;
        }
        let Some(io) = conn.io.as_mut() else { return false };
        let deadline = std::time::Instant::now() + timeout;
        loop {
            if conn.eof {
                return done(&conn.lines);
            }
            let left = deadline.saturating_duration_since(std::time::Instant::now());
            if left.is_zero() {
                return false;
            }
            let mut tmp = [0u8; 16384];
            let r = self.rt.block_on(async { tokio::time::timeout(left, io.read(&mut tmp)).await });
            match r {
                Err(_) => return false,
                Ok(Ok(0)) => conn.eof = true,
                Ok(Err(_)) => {
                    conn.eof = true;
                    conn.reset = true;
                }
                Ok(Ok(n)) => {
                    conn.buf.extend_from_slice(&tmp[..n]);
                    while let Some(p) = conn.buf.iter().position(|&b| b == b'\n') {
                        let mut line: Vec<u8> = conn.buf.drain(..=p).collect();
                        line.pop();
                        if line.last() == Some(&b'\r') {
                            line.pop();
                        }
                        conn.lines.push(String::from_utf8_lossy(&line).into_owned());
                    }
                }
            }
            if done(&conn.lines) {
                return true;
            }
        }
    }

    // send a line and wait for the answer to a following PING (PONG, or 451 when unregistered)
    pub fn ask(&mut self, c: usize, line: &str, tok: &str) -> Option<Vec<String>> {
        let start = self.conns[c].lines.len();
        self.send_bytes(c, format!("{}\r\nPING {}\r\n", line, tok).as_bytes());
        let t = format!(":{}", tok);
        let ok = self.read_until(c, WAIT, &move |ls: &[String]| ls[start.min(ls.len())..].iter().any(|l| (l.contains(" PONG ") && l.ends_with(&t)) || l.contains(" 451 ")));
        if !ok && !self.conns[c].eof {
            return None;
        }
        Some(self.conns[c].lines[start..].iter().filter(|l| !l.contains(" PONG ")).cloned().collect())
    }

    // abortive close: SO_LINGER 0 makes the kernel send RST
    pub fn reset(&mut self, c: usize) {
        if let Some(io) = self.conns[c].io.take() {
            #[allow(deprecated)]
            let _ = io.set_linger(Some(Duration::from_secs(0)));
            drop(io);
        }
    }

    pub fn close(&mut self, c: usize) {
        self.conns[c].io = None;
    }

    pub fn half_close(&mut self, c: usize) {
        if let Some(io) = self.conns[c].io.as_mut() {
            let _ = self.rt.block_on(async { io.shutdown().await });
        }
    }
}

fn clone_cfg(c: &MainConfig) -> MainConfig {
    // MainConfig is not Clone: rebuild through its Debug-independent fields
    let mut n = MainConfig::default();
    n.name = c.name.clone();
    n.admin_info = c.admin_info.clone();
    n.info = c.info.clone();
    n.motd = c.motd.clone();
    n.listen = c.listen;
    n.port = c.port;
    n.network = c.network.clone();
    n.password = c.password.clone();
    n.max_connections = c.max_connections;
    n.max_joins = c.max_joins;
    n.ping_timeout = c.ping_timeout;
    n.pong_timeout = c.pong_timeout;
    n.default_user_modes = c.default_user_modes;
    n
}
