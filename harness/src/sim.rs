// SIM engine: the repository's own connection handler (`user_state_process`, entered through
// hook H1) served over in-memory duplex streams on a single-threaded Tokio runtime with a
// paused (virtual) clock.  `settle()` is an exact quiescence barrier: with the clock paused,
// a 1 ms sleep only returns once every task is idle (and no blocking job is in flight).

use futures::FutureExt;
use std::cell::{Cell, RefCell};
use std::future::Future;
use std::net::{IpAddr, Ipv4Addr, SocketAddr};
use std::pin::Pin;
use std::sync::Arc;
use std::task::{Context, Poll};
use std::time::Duration;
use tokio::io::{AsyncReadExt, AsyncWriteExt, DuplexStream};
use tokio::runtime::{Builder, RngSeed, Runtime};
use tokio::task::JoinHandle;

use crate::{verif_serve_mem, MainConfig, MainState};

#[derive(Clone, Debug)]
pub struct PanicRec {
    pub task: Option<usize>,
    pub msg: String,
    pub loc: String,
}

thread_local! {
    static CUR_TASK: Cell<Option<usize>> = Cell::new(None);
    static IN_SIM: Cell<bool> = Cell::new(false);
    static PANICS: RefCell<Vec<PanicRec>> = RefCell::new(vec![]);
}

pub fn install_panic_hook() {
    static ONCE: std::sync::Once = std::sync::Once::new();
    ONCE.call_once(|| {
        let default = std::panic::take_hook();
        std::panic::set_hook(Box::new(move |info| {
            let in_sim = IN_SIM.with(|c| c.get());
            if !in_sim {
                default(info);
                return;
            }
            let msg = if let Some(s) = info.payload().downcast_ref::<&str>() {
                s.to_string()
            } else if let Some(s) = info.payload().downcast_ref::<String>() {
                s.clone()
            } else {
                "<non-string panic>".to_string()
            };
            let loc = info
                .location()
                .map(|l| format!("{}:{}", l.file(), l.line()))
                .unwrap_or_default();
            let task = CUR_TASK.with(|c| c.take());
            PANICS.with(|p| p.borrow_mut().push(PanicRec { task, msg, loc }));
        }));
    });
}

pub fn set_in_sim(v: bool) {
    IN_SIM.with(|c| c.set(v));
}

pub fn take_panics() -> Vec<PanicRec> {
    PANICS.with(|p| std::mem::take(&mut *p.borrow_mut()))
}

struct Tagged<F> {
    id: usize,
    fut: Pin<Box<F>>,
}

impl<F: Future> Future for Tagged<F> {
    type Output = F::Output;
    fn poll(mut self: Pin<&mut Self>, cx: &mut Context<'_>) -> Poll<F::Output> {
        let id = self.id;
        CUR_TASK.with(|c| c.set(Some(id)));
        let r = self.fut.as_mut().poll(cx);
        CUR_TASK.with(|c| c.set(None));
        r
    }
}

#[derive(Clone, Debug, PartialEq, Eq)]
pub enum TaskEnd {
    Normal,
    Panic,
}

#[derive(Clone, Copy, Debug, PartialEq, Eq)]
pub enum CloseKind {
    Drop,
    HalfClose,
}

pub struct SimConn {
    pub io: Option<DuplexStream>,
    pub task: Option<JoinHandle<()>>,
    pub task_end: Option<TaskEnd>,
    pub raw: Vec<u8>,
    pub consumed: usize,
    pub eof: bool,
    pub write_failed: bool,
    pub addr: SocketAddr,
    pub framing_errors: Vec<String>,
}

pub struct World {
    pub rt: Runtime,
    pub state: Arc<MainState>,
    pub conns: Vec<SimConn>,
    quit_rx: futures::future::Fuse<tokio::sync::oneshot::Receiver<String>>,
    pub quit_seen: Option<String>,
    pub server_name: String,
    pub duplex_cap: usize,
    origin: tokio::time::Instant,
}

pub fn addr_for(i: usize) -> SocketAddr {
    SocketAddr::new(
        IpAddr::V4(Ipv4Addr::new(10, 0, (i / 200) as u8, (i % 200 + 1) as u8)),
        40000 + i as u16,
    )
}

impl World {
    pub fn new(cfg: MainConfig, seed: u64) -> World {
        install_panic_hook();
        set_in_sim(true);
        let _ = take_panics();
        let mut sb = [0u8; 32];
        sb[..8].copy_from_slice(&seed.to_le_bytes());
        let rt = Builder::new_current_thread()
            .enable_all()
            .start_paused(true)
            .rng_seed(RngSeed::from_bytes(&sb))
            .build()
            .expect("runtime");
        let origin = {
            let _g = rt.enter();
            tokio::time::Instant::now()
        };
        let server_name = cfg.name.clone();
        let state = Arc::new(MainState::new_from_config(cfg));
        let st2 = state.clone();
        let quit_rx = rt.block_on(async move { st2.get_quit_receiver().await });
        World {
            rt,
            state,
            conns: vec![],
            quit_rx,
            quit_seen: None,
            server_name,
            duplex_cap: 1 << 20,
            origin,
        }
    }

    pub fn connect_addr(&mut self, addr: SocketAddr) -> usize {
        let (client, server) = tokio::io::duplex(self.duplex_cap);
        let id = self.conns.len();
        let st = self.state.clone();
        let _g = self.rt.enter();
        let task = tokio::spawn(Tagged {
            id,
            fut: Box::pin(verif_serve_mem(st, server, addr)),
        });
        self.conns.push(SimConn {
            io: Some(client),
            task: Some(task),
            task_end: None,
            raw: vec![],
            consumed: 0,
            eof: false,
            write_failed: false,
            addr,
            framing_errors: vec![],
        });
        id
    }

    pub fn connect(&mut self) -> usize {
        let a = addr_for(self.conns.len());
        self.connect_addr(a)
    }

    pub fn send_bytes(&mut self, c: usize, bytes: &[u8]) {
        let conn = &mut self.conns[c];
        if let Some(io) = conn.io.as_mut() {
            let r = self.rt.block_on(async { io.write_all(bytes).await });
            if r.is_err() {
                conn.write_failed = true;
            }
        }
    }

    pub fn send_line(&mut self, c: usize, line: &str) {
        let mut b = line.as_bytes().to_vec();
        b.extend_from_slice(b"\r\n");
        self.send_bytes(c, &b);
    }

    // exact quiescence barrier (virtual 1 ms)
    pub fn settle(&mut self) {
        self.rt
            .block_on(async { tokio::time::sleep(Duration::from_millis(1)).await });
        self.poll_tasks();
        if self.quit_seen.is_none() {
            if let Some(Ok(m)) = (&mut self.quit_rx).now_or_never() {
                self.quit_seen = Some(m);
            }
        }
    }

    pub fn advance(&mut self, d: Duration) {
        self.rt.block_on(async { tokio::time::sleep(d).await });
        self.poll_tasks();
    }

    pub fn now_ms(&self) -> u128 {
        let _g = self.rt.enter();
        tokio::time::Instant::now()
            .duration_since(self.origin)
            .as_millis()
    }

    fn poll_tasks(&mut self) {
        for conn in self.conns.iter_mut() {
            if conn.task_end.is_none() {
                if let Some(h) = conn.task.as_ref() {
                    if h.is_finished() {
                        let h = conn.task.take().unwrap();
                        let r = self.rt.block_on(h);
                        conn.task_end = Some(match r {
                            Ok(()) => TaskEnd::Normal,
                            Err(e) if e.is_panic() => TaskEnd::Panic,
                            Err(_) => TaskEnd::Normal,
                        });
                    }
                }
            }
        }
    }

    // read everything available now; returns the new complete lines (without CRLF)
    pub fn drain(&mut self, c: usize) -> Vec<String> {
        let conn = &mut self.conns[c];
        if let Some(io) = conn.io.as_mut() {
            if !conn.eof {
                let mut buf = [0u8; 16384];
                loop {
                    match io.read(&mut buf).now_or_never() {
                        Some(Ok(0)) => {
                            conn.eof = true;
                            break;
                        }
                        Some(Ok(n)) => conn.raw.extend_from_slice(&buf[..n]),
                        Some(Err(_)) => {
                            conn.eof = true;
                            break;
                        }
                        None => break,
                    }
                }
            }
        }
        let mut out = vec![];
        loop {
            let rest = &conn.raw[conn.consumed..];
            if let Some(p) = rest.iter().position(|&b| b == b'\n') {
                let mut line = &rest[..p];
                if line.last() == Some(&b'\r') {
                    line = &line[..line.len() - 1];
                } else {
                    conn.framing_errors
                        .push(format!("LF without CR: {:?}", String::from_utf8_lossy(line)));
                }
                if line.iter().any(|&b| b == b'\r' || b == 0) {
                    conn.framing_errors
                        .push(format!("CR/NUL inside line: {:?}", String::from_utf8_lossy(line)));
                }
                if std::str::from_utf8(line).is_err() {
                    conn.framing_errors
                        .push(format!("non-UTF-8 output: {:?}", String::from_utf8_lossy(line)));
                }
                out.push(String::from_utf8_lossy(line).into_owned());
                conn.consumed += p + 1;
            } else {
                break;
            }
        }
        out
    }

    pub fn has_partial_output(&self, c: usize) -> bool {
        self.conns[c].consumed < self.conns[c].raw.len()
    }

    pub fn close(&mut self, c: usize, kind: CloseKind) {
        let conn = &mut self.conns[c];
        match kind {
            CloseKind::Drop => {
                conn.io = None;
            }
            CloseKind::HalfClose => {
                if let Some(io) = conn.io.as_mut() {
                    let _ = self.rt.block_on(async { io.shutdown().await });
                }
            }
        }
    }

    // the connection's server task ended (normally or by panic)
    pub fn task_ended(&self, c: usize) -> Option<TaskEnd> {
        self.conns[c].task_end.clone()
    }
}

impl Drop for World {
    fn drop(&mut self) {
        // drop client halves first so tasks see EOF if they are ever polled again (they are not).
        for c in self.conns.iter_mut() {
            c.io = None;
            if let Some(h) = c.task.take() {
                h.abort();
            }
        }
    }
}

// ---------------------------------------------------------------------------------------------
// MT engine: the same in-memory transport on a multi-thread runtime with real time (true
// parallelism between connection handlers).  Barriers are protocol-level (PING/PONG and a
// self-addressed message through the connection's own FIFO queue); a real-time wait that
// expires makes the case inconclusive, never a violation.

use std::sync::atomic::{AtomicBool, Ordering as AtomOrd};
use std::sync::Mutex as StdMutex;

pub static MT_ACTIVE: AtomicBool = AtomicBool::new(false);
lazy_static::lazy_static! {
    pub static ref MT_PANICS: StdMutex<Vec<PanicRec>> = StdMutex::new(vec![]);
}

pub fn install_mt_panic_hook() {
    static ONCE: std::sync::Once = std::sync::Once::new();
    install_panic_hook();
    ONCE.call_once(|| {
        let prev = std::panic::take_hook();
        std::panic::set_hook(Box::new(move |info| {
            let on_worker = std::thread::current().name().map_or(false, |n| n.starts_with("sirc-mt"));
            if MT_ACTIVE.load(AtomOrd::SeqCst) && on_worker {
                let msg = if let Some(s) = info.payload().downcast_ref::<&str>() {
                    s.to_string()
                } else if let Some(s) = info.payload().downcast_ref::<String>() {
                    s.clone()
                } else {
                    "<non-string panic>".to_string()
                };
                let loc = info.location().map(|l| format!("{}:{}", l.file(), l.line())).unwrap_or_default();
                MT_PANICS.lock().unwrap().push(PanicRec { task: None, msg, loc });
            } else {
                prev(info);
            }
        }));
    });
}

pub struct MtConn {
    pub io: Option<DuplexStream>,
    pub buf: Vec<u8>,
    pub lines: Vec<String>,
    pub eof: bool,
}

pub struct MtWorld {
    pub rt: Runtime,
    pub state: Arc<MainState>,
    pub conns: Vec<MtConn>,
}

impl MtWorld {
    pub fn new(cfg: MainConfig, workers: usize) -> MtWorld {
        install_mt_panic_hook();
        MT_ACTIVE.store(true, AtomOrd::SeqCst);
        let rt = Builder::new_multi_thread()
            .worker_threads(workers.max(2))
            .thread_name("sirc-mt")
            .enable_all()
            .build()
            .expect("mt runtime");
        let state = Arc::new(MainState::new_from_config(cfg));
        MtWorld { rt, state, conns: vec![] }
    }

    pub fn connect(&mut self) -> usize {
        let (client, server) = tokio::io::duplex(1 << 20);
        let id = self.conns.len();
        let st = self.state.clone();
        let addr = addr_for(id);
        self.rt.spawn(verif_serve_mem(st, server, addr));
        self.conns.push(MtConn { io: Some(client), buf: vec![], lines: vec![], eof: false });
        id
    }

    pub fn send_bytes(&mut self, c: usize, b: &[u8]) {
        if let Some(io) = self.conns[c].io.as_mut() {
            let _ = self.rt.block_on(async { io.write_all(b).await });
        }
    }

    // read until `done` says so for the lines received so far (all lines are kept); false on timeout
    pub fn read_until(&mut self, c: usize, timeout: Duration, done: &dyn Fn(&[String]) -> bool) -> bool {
        let conn = &mut self.conns[c];
        let start_len = conn.lines.len();
        let _ = start_len;
        if done(&conn.lines) {
            return true;
        }
        let Some(io) = conn.io.as_mut() else { return false };
        let deadline = std::time::Instant::now() + timeout;
        loop {
            if conn.eof {
                return done(&conn.lines);
            }
            let left = deadline.saturating_duration_since(std::time::Instant::now());
            if left.is_zero() {
                return false;
            }
            let mut tmp = [0u8; 16384];
            let r = self.rt.block_on(async { tokio::time::timeout(left, io.read(&mut tmp)).await });
            match r {
                Err(_) => return false,
                Ok(Ok(0)) | Ok(Err(_)) => {
                    conn.eof = true;
                }
                Ok(Ok(n)) => {
                    conn.buf.extend_from_slice(&tmp[..n]);
                    while let Some(p) = conn.buf.iter().position(|&b| b == b'\n') {
                        let mut line: Vec<u8> = conn.buf.drain(..=p).collect();
                        line.pop();
                        if line.last() == Some(&b'\r') {
                            line.pop();
                        }
                        conn.lines.push(String::from_utf8_lossy(&line).into_owned());
                    }
                }
            }
            if done(&conn.lines) {
                return true;
            }
        }
    }
}

impl MtWorld {
    // true if the runtime did no work at all during a 400 ms window: every worker is parked, so
    // nothing that is still outstanding can ever be answered (a stall, not slowness)
    pub fn quiescent(&self) -> bool {
        let m = self.rt.metrics();
        let sample = |m: &tokio::runtime::RuntimeMetrics| -> u64 {
            let mut t = 0u64;
            for w in 0..m.num_workers() {
                t = t.wrapping_add(m.worker_poll_count(w));
            }
            t
        };
        let a = sample(&m);
        std::thread::sleep(Duration::from_millis(400));
        let b = sample(&m);
        a == b
    }
}

impl Drop for MtWorld {
    fn drop(&mut self) {
        for c in self.conns.iter_mut() {
            c.io = None;
        }
    }
}
