// Reference IRC tokenizer, written from the grammar in the property statement (C13):
//   message = [":" source SP+] command *(SP+ middle) [SP+ ":" trailing]
// `middle` does not start with ':' but may contain it; `trailing` is everything after the
// first word-initial ':' and may be empty or contain spaces and colons.
// Only the ASCII space separates; nothing else is interpreted.

#[derive(Clone, Debug, PartialEq, Eq, PartialOrd, Ord, Hash)]
pub struct RMsg {
    pub source: Option<String>,
    pub command: String,
    pub params: Vec<String>,
}

#[derive(Clone, Copy, Debug, PartialEq, Eq)]
pub enum RErr {
    Empty,
    NoCommand,
}

pub fn parse(line: &str) -> Result<RMsg, RErr> {
    let b = line.as_bytes();
    let n = b.len();
    let mut i = 0;
    while i < n && b[i] == b' ' {
        i += 1;
    }
    if i == n {
        return Err(RErr::Empty);
    }
    let mut source = None;
    if b[i] == b':' {
        let st = i + 1;
        while i < n && b[i] != b' ' {
            i += 1;
        }
        source = Some(line[st..i].to_string());
        while i < n && b[i] == b' ' {
            i += 1;
        }
    }
    if i == n || b[i] == b':' {
        return Err(RErr::NoCommand);
    }
    let st = i;
    while i < n && b[i] != b' ' {
        i += 1;
    }
    let command = line[st..i].to_string();
    let mut params = vec![];
    loop {
        while i < n && b[i] == b' ' {
            i += 1;
        }
        if i == n {
            break;
        }
        if b[i] == b':' {
            params.push(line[i + 1..].to_string());
            break;
        }
        let st = i;
        while i < n && b[i] != b' ' {
            i += 1;
        }
        params.push(line[st..i].to_string());
    }
    Ok(RMsg {
        source,
        command,
        params,
    })
}

// Debug rendering identical in shape to `#[derive(Debug)]` of the repository's `Message`.
pub fn debug_like_message(m: &RMsg) -> String {
    format!(
        "Message {{ source: {:?}, command: {:?}, params: {:?} }}",
        m.source.as_deref(),
        m.command,
        m.params
    )
}

pub fn selftest() -> Result<(), String> {
    let t = |l: &str, src: Option<&str>, c: &str, p: &[&str]| -> Result<(), String> {
        let m = parse(l).map_err(|e| format!("{:?} for {:?}", e, l))?;
        if m.source.as_deref() != src || m.command != c || m.params != p {
            return Err(format!("refparse selftest: {:?} -> {:?}", l, m));
        }
        Ok(())
    };
    t("QUIT", None, "QUIT", &[])?;
    t("   QUIT", None, "QUIT", &[])?;
    t(":src QUIT", Some("src"), "QUIT", &[])?;
    t("USER guest 0 * :Ronnie Reagan", None, "USER", &["guest", "0", "*", "Ronnie Reagan"])?;
    t("PRIVMSG bobby ::-). Hello guy!", None, "PRIVMSG", &["bobby", ":-). Hello guy!"])?;
    t("PRIVMSG #a:b hello", None, "PRIVMSG", &["#a:b", "hello"])?;
    t("TOPIC #c :", None, "TOPIC", &["#c", ""])?;
    t("TOPIC #c a:b  c ", None, "TOPIC", &["#c", "a:b", "c"])?;
    t("MODE #c +b *!*@::1", None, "MODE", &["#c", "+b", "*!*@::1"])?;
    t(":a!b@c PRIVMSG #x : x : y ", Some("a!b@c"), "PRIVMSG", &["#x", " x : y "])?;
    if parse("") != Err(RErr::Empty) || parse("    ") != Err(RErr::Empty) {
        return Err("refparse selftest: empty".into());
    }
    if parse(":src") != Err(RErr::NoCommand) || parse(":src  ") != Err(RErr::NoCommand) {
        return Err("refparse selftest: nocommand".into());
    }
    Ok(())
}
