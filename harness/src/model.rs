// Reference model of the server, written from the property statements (properties.jsonl,
// DESIGN.md appendix A) - not from the code.  For every client line it yields the set of
// allowed observable outcomes (exact lines, optional lines, at-least-one-of groups,
// alternatives where the statements are silent) and advances its own state.

use std::collections::{BTreeMap, BTreeSet};

use crate::cfgspec::CfgSpec;
use crate::norm::NL;
use crate::refglob::{glob, normalise};
use crate::refparse;

#[derive(Clone, Copy, Debug, Default, PartialEq, Eq)]
pub struct Rank {
    pub q: bool,
    pub a: bool,
    pub o: bool,
    pub h: bool,
    pub v: bool,
}

impl Rank {
    pub fn half_plus(&self) -> bool {
        self.q || self.a || self.o || self.h
    }
    pub fn op_plus(&self) -> bool {
        self.q || self.a || self.o
    }
    pub fn prot_plus(&self) -> bool {
        self.q || self.a
    }
    pub fn voice_plus(&self) -> bool {
        self.q || self.a || self.o || self.h || self.v
    }
    pub fn only_h(&self) -> bool {
        self.h && !self.q && !self.a && !self.o
    }
    pub fn any(&self) -> bool {
        self.voice_plus()
    }
    pub fn get(&self, c: char) -> bool {
        match c {
            'q' => self.q,
            'a' => self.a,
            'o' => self.o,
            'h' => self.h,
            'v' => self.v,
            _ => false,
        }
    }
    pub fn set(&mut self, c: char, val: bool) {
        match c {
            'q' => self.q = val,
            'a' => self.a = val,
            'o' => self.o = val,
            'h' => self.h = val,
            'v' => self.v = val,
            _ => {}
        }
    }
    pub fn prefix(&self, multi: bool) -> String {
        let mut s = String::new();
        for (f, c) in [(self.q, '~'), (self.a, '&'), (self.o, '@'), (self.h, '%'), (self.v, '+')] {
            if f && (multi || s.is_empty()) {
                s.push(c);
            }
        }
        s
    }
    pub fn letters(&self) -> String {
        let mut s = String::new();
        for c in ['q', 'a', 'o', 'h', 'v'] {
            if self.get(c) {
                s.push(c);
            }
        }
        s
    }
}

#[derive(Clone, Debug)]
pub struct MUser {
    pub conn: usize,
    pub nick: String,
    pub user: String,
    pub host: String,
    pub real: String,
    pub modes: BTreeSet<char>,
    pub away: Option<String>,
    pub chans: BTreeSet<String>,
    pub invited: BTreeSet<String>,
}

impl MUser {
    pub fn source(&self) -> String {
        format!("{}!~{}@{}", self.nick, self.user, self.host)
    }
    pub fn is_oper(&self) -> bool {
        self.modes.contains(&'o')
    }
    pub fn is_local_oper(&self) -> bool {
        self.modes.contains(&'o') || self.modes.contains(&'O')
    }
    pub fn invisible(&self) -> bool {
        self.modes.contains(&'i')
    }
}

#[derive(Clone, Debug, Default)]
pub struct MChan {
    pub members: BTreeMap<String, Rank>,
    pub flags: BTreeSet<char>,
    pub key: Option<String>,
    pub limit: Option<usize>,
    pub ban: BTreeSet<String>,
    pub except: BTreeSet<String>,
    pub invex: BTreeSet<String>,
    pub topic: Option<String>,
    pub predefined: bool,
    pub def: BTreeMap<char, BTreeSet<String>>,
}

impl MChan {
    pub fn has(&self, f: char) -> bool {
        self.flags.contains(&f)
    }
    pub fn banned(&self, src: &str) -> bool {
        self.ban.iter().any(|b| glob(b, src)) && !self.except.iter().any(|e| glob(e, src))
    }
}

#[derive(Clone, Debug, PartialEq)]
pub enum ConnSt {
    Unreg {
        pass: Option<String>,
        nick: Option<String>,
        user: Option<(String, String)>,
        capneg: bool,
    },
    Reg {
        nick: String,
    },
    Closed,
}

#[derive(Clone, Debug)]
pub struct MConn {
    pub st: ConnSt,
    pub multi_prefix: bool,
    pub host: String,
}

#[derive(Clone, Debug, Default)]
pub struct Expect {
    pub must: BTreeMap<usize, Vec<NL>>,
    pub optional: Vec<(usize, NL)>,
    pub any_of: Vec<(usize, Vec<NL>)>,
    pub closes: Vec<usize>,
    pub unknown: bool,
    pub alts: Vec<(Expect, Box<Model>)>,
    pub tags: Vec<String>,
    pub server_quit: bool,
    // PRIVMSG/NOTICE: (target as sent, accepted by the model, model audience size)
    pub send_targets: Vec<(String, bool, usize)>,
}

impl Expect {
    pub fn s(&mut self, c: usize, code: &str, args: &[&str]) {
        let mut v = vec!["S".to_string(), code.to_string()];
        v.extend(args.iter().map(|s| s.to_string()));
        self.must.entry(c).or_default().push(v);
    }
    pub fn sv(&mut self, c: usize, code: &str, args: Vec<String>) {
        let mut v = vec!["S".to_string(), code.to_string()];
        v.extend(args);
        self.must.entry(c).or_default().push(v);
    }
    pub fn r(&mut self, c: usize, src: &str, cmd: &str, args: Vec<String>) {
        let mut v = vec![src.to_string(), cmd.to_string()];
        v.extend(args);
        self.must.entry(c).or_default().push(v);
    }
    pub fn opt(&mut self, c: usize, line: NL) {
        self.optional.push((c, line));
    }
    pub fn tag(&mut self, t: impl Into<String>) {
        self.tags.push(t.into());
    }
    pub fn has_tag(&self, t: &str) -> bool {
        self.tags.iter().any(|x| x == t)
    }
    pub fn has_tag_prefix(&self, t: &str) -> bool {
        self.tags.iter().any(|x| x.starts_with(t))
    }
}

fn snl(code: &str, args: &[&str]) -> NL {
    let mut v = vec!["S".to_string(), code.to_string()];
    v.extend(args.iter().map(|s| s.to_string()));
    v
}

#[derive(Clone, Debug)]
pub struct Model {
    pub cfg: CfgSpec,
    pub conns: Vec<MConn>,
    pub users: BTreeMap<String, MUser>,
    pub chans: BTreeMap<String, MChan>,
    pub whowas: BTreeMap<String, Vec<(String, String, String)>>,
    pub max_users: usize,
    pub died: bool,
}

pub fn valid_name(s: &str) -> bool {
    // nick / user names: no '.', ':' or ',' and no channel prefix (the statement's "syntactically
    // invalid" nickname); the empty name is not generated by sound generators
    !s.is_empty() && !s.starts_with('#') && !s.starts_with('&') && !s.contains(|c| c == '.' || c == ':' || c == ',' || c == ' ')
}

pub fn valid_chan(s: &str) -> bool {
    (s.starts_with('#') || s.starts_with('&')) && s.len() > 1 && !s.contains(|c| c == ':' || c == ',' || c == ' ')
}

// split a PRIVMSG/NOTICE target into (status letters, channel) if it is a channel target
pub fn split_status_target(t: &str) -> Option<(BTreeSet<char>, String)> {
    let cs: Vec<char> = t.chars().collect();
    let mut st = BTreeSet::new();
    let mut i = 0;
    while i < cs.len() {
        let c = cs[i];
        match c {
            '#' => {
                if i + 1 < cs.len() {
                    return Some((st, cs[i..].iter().collect()));
                }
                return None;
            }
            '&' => {
                // '&' followed by a non-prefix character: local channel sigil
                if i + 1 < cs.len() && !"~&@%+#".contains(cs[i + 1]) {
                    return Some((st, cs[i..].iter().collect()));
                }
                if i + 1 >= cs.len() {
                    return None;
                }
                st.insert('a');
            }
            '~' => {
                st.insert('q');
            }
            '@' => {
                st.insert('o');
            }
            '%' => {
                st.insert('h');
            }
            '+' => {
                st.insert('v');
            }
            _ => return None,
        }
        i += 1;
    }
    None
}

impl Model {
    pub fn new(cfg: CfgSpec) -> Model {
        let mut chans = BTreeMap::new();
        for c in &cfg.channels {
            let mut mc = MChan::default();
            mc.predefined = true;
            mc.topic = c.topic.clone();
            mc.flags = c.flags.chars().collect();
            mc.key = c.key.clone();
            mc.limit = c.limit;
            mc.ban = c.ban.iter().cloned().collect();
            mc.except = c.except.iter().cloned().collect();
            mc.invex = c.invex.iter().cloned().collect();
            mc.def.insert('q', c.founders.iter().cloned().collect());
            mc.def.insert('a', c.protecteds.iter().cloned().collect());
            mc.def.insert('o', c.operators.iter().cloned().collect());
            mc.def.insert('h', c.half_operators.iter().cloned().collect());
            mc.def.insert('v', c.voices.iter().cloned().collect());
            chans.insert(c.name.clone(), mc);
        }
        Model {
            cfg,
            conns: vec![],
            users: BTreeMap::new(),
            chans,
            whowas: BTreeMap::new(),
            max_users: 0,
            died: false,
        }
    }

    pub fn connect(&mut self, host: &str) -> usize {
        self.conns.push(MConn {
            st: ConnSt::Unreg {
                pass: None,
                nick: None,
                user: None,
                capneg: false,
            },
            multi_prefix: false,
            host: host.to_string(),
        });
        self.conns.len() - 1
    }

    pub fn nick_of(&self, c: usize) -> Option<&str> {
        match &self.conns[c].st {
            ConnSt::Reg { nick } => Some(nick.as_str()),
            _ => None,
        }
    }

    pub fn is_registered(&self, c: usize) -> bool {
        matches!(self.conns[c].st, ConnSt::Reg { .. })
    }

    pub fn is_open(&self, c: usize) -> bool {
        !matches!(self.conns[c].st, ConnSt::Closed)
    }

    pub fn conn_of(&self, nick: &str) -> Option<usize> {
        self.users.get(nick).map(|u| u.conn)
    }

    pub fn shares_channel(&self, a: &str, b: &str) -> bool {
        match (self.users.get(a), self.users.get(b)) {
            (Some(x), Some(y)) => !x.chans.is_disjoint(&y.chans),
            _ => false,
        }
    }

    fn lusers(&self, e: &mut Expect, c: usize) {
        let inv = self.users.values().filter(|u| u.invisible()).count();
        let ops = self.users.values().filter(|u| u.is_local_oper()).count();
        let n = self.users.len();
        e.sv(c, "251", vec![(n - inv).to_string(), inv.to_string()]);
        e.sv(c, "252", vec![ops.to_string()]);
        e.sv(c, "254", vec![self.chans.len().to_string()]);
        e.sv(c, "255", vec![n.to_string()]);
        e.sv(c, "265", vec![n.to_string(), self.max_users.to_string()]);
        e.sv(c, "266", vec![n.to_string(), self.max_users.to_string()]);
    }

    fn modes_str(u: &MUser) -> String {
        u.modes.iter().collect()
    }

    // remove a user from everything (C06 clean-up)
    pub fn remove_user(&mut self, nick: &str) {
        if let Some(u) = self.users.remove(nick) {
            for ch in &u.chans {
                let mut del = false;
                if let Some(c) = self.chans.get_mut(ch) {
                    c.members.remove(nick);
                    del = c.members.is_empty() && !c.predefined;
                }
                if del {
                    self.chans.remove(ch);
                }
            }
            self.whowas
                .entry(nick.to_string())
                .or_default()
                .push((u.user.clone(), u.host.clone(), u.real.clone()));
        }
    }

    // the client side closed / the connection ended abnormally
    pub fn on_close(&mut self, c: usize) {
        if let ConnSt::Reg { nick } = self.conns[c].st.clone() {
            self.remove_user(&nick);
        }
        self.conns[c].st = ConnSt::Closed;
    }

    fn evaluate(&mut self, c: usize, e: &mut Expect) {
        let (pass, nick, user, capneg) = match &self.conns[c].st {
            ConnSt::Unreg { pass, nick, user, capneg } => (pass.clone(), nick.clone(), user.clone(), *capneg),
            _ => return,
        };
        let (Some(nick), Some((uname, real))) = (nick, user) else {
            return;
        };
        if capneg {
            return;
        }
        let host = self.conns[c].host.clone();
        let src = format!("{}!~{}@{}", nick, uname, host);
        let cfgu = self.cfg.users.iter().find(|u| u.name == uname).cloned();
        let mut cfg_registered = false;
        let mut secret = self.cfg.password.clone();
        if let Some(cu) = &cfgu {
            if let Some(m) = &cu.mask {
                if !glob(m, &src) {
                    e.s(c, "ERROR", &[]);
                    e.tag("reg:mask-mismatch");
                    return;
                }
            }
            cfg_registered = true;
            if cu.password.is_some() {
                secret = cu.password.clone();
            }
        }
        if let Some(sec) = secret {
            if pass.as_deref() != Some(sec.as_str()) {
                e.s(c, "464", &[]);
                e.closes.push(c);
                e.tag("reg:bad-password");
                self.conns[c].st = ConnSt::Closed;
                return;
            }
        }
        if self.users.contains_key(&nick) {
            e.s(c, "433", &[&nick]);
            e.tag("reg:nick-taken-at-completion");
            return;
        }
        // welcome
        let mut modes: BTreeSet<char> = self.cfg.default_modes.chars().collect();
        if cfg_registered {
            modes.insert('r');
        }
        let u = MUser {
            conn: c,
            nick: nick.clone(),
            user: uname,
            host,
            real,
            modes,
            away: None,
            chans: BTreeSet::new(),
            invited: BTreeSet::new(),
        };
        let ms = Self::modes_str(&u);
        self.users.insert(nick.clone(), u);
        if self.users.len() > self.max_users {
            self.max_users = self.users.len();
        }
        self.conns[c].st = ConnSt::Reg { nick };
        e.s(c, "001", &[]);
        self.lusers(e, c);
        e.s(c, "375", &[]);
        let motd = self.cfg.motd.clone();
        e.s(c, "372", &[&motd]);
        e.s(c, "376", &[]);
        e.s(c, "221", &[&ms]);
        e.tag("reg:welcome");
    }

    fn names_entries(&self, chan: &str, viewer: &str, multi: bool, show_shared_invisible: bool) -> Vec<String> {
        let ch = &self.chans[chan];
        let inside = ch.members.contains_key(viewer);
        let mut v = vec![];
        for (n, r) in &ch.members {
            let u = &self.users[n];
            let visible = inside || !u.invisible() || (show_shared_invisible && self.shares_channel(n, viewer));
            if visible {
                v.push(format!("{}{}", r.prefix(multi), n));
            }
        }
        v.sort();
        v
    }

    fn names_reply(&self, e: &mut Expect, c: usize, chan: &str, viewer: &str, end: bool, alt_shared: bool) {
        let multi = self.conns[c].multi_prefix;
        if let Some(ch) = self.chans.get(chan) {
            let inside = ch.members.contains_key(viewer);
            if !ch.has('s') || inside {
                let ent = self.names_entries(chan, viewer, multi, alt_shared);
                if !ent.is_empty() {
                    let mut a = vec![chan.to_string(), if ch.has('s') { "@" } else { "=" }.to_string()];
                    a.extend(ent);
                    e.sv(c, "353", a);
                }
            }
        }
        if end {
            e.s(c, "366", &[chan]);
        }
    }

    fn who_line(&self, target: &MUser, chan: Option<(&str, &Rank)>, multi: bool) -> Vec<String> {
        let mut flags = String::new();
        flags.push(if target.away.is_some() { 'G' } else { 'H' });
        if target.is_local_oper() {
            flags.push('*');
        }
        if let Some((_, r)) = chan {
            flags += &r.prefix(multi);
        }
        vec![
            chan.map(|(c, _)| c.to_string()).unwrap_or_else(|| "*".to_string()),
            format!("~{}", target.user),
            target.host.clone(),
            target.nick.clone(),
            flags,
            target.real.clone(),
        ]
    }

    fn visible_to(&self, target: &str, viewer: &str) -> bool {
        let t = &self.users[target];
        !t.invisible() || self.shares_channel(target, viewer)
    }

    // ---------------------------------------------------------------------------------------
    pub fn on_line(&mut self, c: usize, line: &str) -> Expect {
        let mut e = Expect::default();
        if !self.is_open(c) {
            e.unknown = true;
            return e;
        }
        if line.len() > 2000 {
            // over-long line: ERR_INPUTTOOLONG, nothing executed
            e.s(c, "417", &[]);
            e.tag("too-long");
            return e;
        }
        let m = match refparse::parse(line) {
            Ok(m) => m,
            Err(refparse::RErr::Empty) => {
                e.tag("empty");
                return e;
            }
            Err(_) => {
                e.s(c, "ERROR", &[]);
                return e;
            }
        };
        let verb = m.command.to_ascii_uppercase();
        let p: Vec<&str> = m.params.iter().map(|s| s.as_str()).collect();
        e.tag(format!("verb:{}", verb));
        let registered = self.is_registered(c);
        if !registered {
            self.unregistered(c, &verb, &p, &mut e);
            return e;
        }
        let nick = self.nick_of(c).unwrap().to_string();
        match verb.as_str() {
            "CAP" => self.cap(c, &p, &mut e),
            "AUTHENTICATE" => e.s(c, "421", &["AUTHENTICATE"]),
            "PASS" | "USER" => {
                let need = if verb == "PASS" { 1 } else { 4 };
                if p.len() < need {
                    e.s(c, "461", &[&verb]);
                } else if verb == "USER" && !valid_name(p[0]) {
                    e.s(c, "ERROR", &[]);
                } else {
                    e.s(c, "462", &[]);
                }
            }
            "NICK" => self.nick(c, &nick, &p, &mut e),
            "PING" => {
                if p.is_empty() {
                    e.s(c, "461", &["PING"]);
                } else {
                    e.s(c, "PONG", &[p[0]]);
                }
            }
            "PONG" => {
                if p.is_empty() {
                    e.s(c, "461", &["PONG"]);
                }
            }
            "QUIT" => {
                e.s(c, "ERROR", &[]);
                e.closes.push(c);
                self.on_close(c);
                e.tag("quit");
            }
            "JOIN" => self.join(c, &nick, &p, &mut e),
            "PART" => self.part(c, &nick, &p, &mut e),
            "KICK" => self.kick(c, &nick, &p, &mut e),
            "TOPIC" => self.topic(c, &nick, &p, &mut e),
            "INVITE" => self.invite(c, &nick, &p, &mut e),
            "MODE" => self.mode(c, &nick, &p, &mut e),
            "OPER" => self.oper(c, &nick, &p, &mut e),
            "PRIVMSG" | "NOTICE" => self.privmsg(c, &nick, &verb, &p, &mut e),
            "AWAY" => {
                let u = self.users.get_mut(&nick).unwrap();
                if let Some(t) = p.get(0) {
                    if t.is_empty() {
                        // statement silent on an empty away text
                        e.unknown = true;
                    }
                    u.away = Some(t.to_string());
                    e.s(c, "306", &[]);
                } else {
                    u.away = None;
                    e.s(c, "305", &[]);
                }
            }
            "WALLOPS" => {
                if p.is_empty() {
                    e.s(c, "461", &["WALLOPS"]);
                } else if self.users[&nick].is_local_oper() {
                    let src = self.users[&nick].source();
                    let args: Vec<String> = p.iter().map(|s| s.to_string()).collect();
                    for u in self.users.values() {
                        if u.modes.contains(&'w') {
                            e.r(u.conn, &src, "WALLOPS", args.clone());
                        }
                    }
                    e.tag("wallops:sent");
                } else {
                    e.s(c, "481", &[]);
                    e.tag("priv:refused");
                }
            }
            "KILL" => {
                if p.len() < 2 {
                    e.s(c, "461", &["KILL"]);
                } else if !valid_name(p[0]) {
                    e.s(c, "ERROR", &[]);
                } else if !self.users[&nick].is_oper() {
                    e.s(c, "481", &[]);
                    e.tag("priv:refused");
                } else if let Some(v) = self.users.get(p[0]).map(|u| u.conn) {
                    e.s(v, "ERROR", &[]);
                    e.closes.push(v);
                    e.tag(format!("kill:{}", p[0]));
                    self.on_close(v);
                } else {
                    e.s(c, "401", &[p[0]]);
                }
            }
            "DIE" | "SQUIT" => {
                if verb == "SQUIT" && p.len() < 2 {
                    e.s(c, "461", &["SQUIT"]);
                } else if verb == "SQUIT" && !p[0].contains('.') {
                    e.s(c, "ERROR", &[]);
                } else if verb == "SQUIT" && p[0] != crate::cfgspec::SERVER_NAME {
                    e.s(c, "400", &["SQUIT"]);
                } else if !self.users[&nick].is_oper() {
                    // privilege error; which of the two numerics is not judged
                    e.any_of.push((c, vec![snl("483", &[]), snl("481", &[])]));
                    e.tag("priv:refused");
                } else {
                    let conns: Vec<usize> = self.users.values().map(|u| u.conn).collect();
                    for v in conns {
                        e.s(v, "ERROR", &[]);
                        e.closes.push(v);
                        self.on_close(v);
                    }
                    e.server_quit = true;
                    self.died = true;
                    e.tag("die");
                }
            }
            "NAMES" => {
                if p.is_empty() {
                    let mut alt = e.clone();
                    let names: Vec<String> = self.chans.keys().cloned().collect();
                    let mut differs = false;
                    for ch in &names {
                        self.names_reply(&mut e, c, ch, &nick, false, false);
                        self.names_reply(&mut alt, c, ch, &nick, false, true);
                    }
                    e.s(c, "366", &["*"]);
                    alt.s(c, "366", &["*"]);
                    if e.must != alt.must {
                        differs = true;
                    }
                    if differs {
                        e.alts.push((alt, Box::new(self.clone())));
                    }
                } else {
                    let mut alt = e.clone();
                    for ch in p[0].split(',') {
                        if !valid_chan(ch) {
                            let mut e2 = Expect::default();
                            e2.s(c, "ERROR", &[]);
                            return e2;
                        }
                        self.names_reply(&mut e, c, ch, &nick, true, false);
                        self.names_reply(&mut alt, c, ch, &nick, true, true);
                    }
                    if e.must != alt.must {
                        e.alts.push((alt, Box::new(self.clone())));
                    }
                }
            }
            "WHO" => self.who(c, &nick, &p, &mut e),
            "WHOIS" => self.whois(c, &nick, &p, &mut e),
            "WHOWAS" => {
                if p.is_empty() {
                    e.s(c, "461", &["WHOWAS"]);
                } else if p.len() > 1 {
                    e.unknown = true;
                } else if !valid_name(p[0]) {
                    e.s(c, "ERROR", &[]);
                } else {
                    if let Some(h) = self.whowas.get(p[0]) {
                        for (u, ho, r) in h.iter().rev() {
                            e.sv(c, "314", vec![p[0].to_string(), format!("~{}", u), ho.clone(), r.clone()]);
                            e.s(c, "312", &[p[0]]);
                        }
                    } else {
                        e.s(c, "406", &[p[0]]);
                    }
                    e.s(c, "369", &[p[0]]);
                }
            }
            "LIST" => {
                if p.len() > 1 {
                    e.unknown = true;
                } else {
                    e.s(c, "321", &[]);
                    let names: Vec<String> = if p.is_empty() {
                        self.chans.keys().cloned().collect()
                    } else {
                        let mut v = vec![];
                        for ch in p[0].split(',') {
                            if !valid_chan(ch) {
                                let mut e2 = Expect::default();
                                e2.s(c, "ERROR", &[]);
                                return e2;
                            }
                            v.push(ch.to_string());
                        }
                        v
                    };
                    for ch in names {
                        if let Some(co) = self.chans.get(&ch) {
                            if !co.has('s') {
                                e.sv(
                                    c,
                                    "322",
                                    vec![ch.clone(), co.members.len().to_string(), co.topic.clone().unwrap_or_default()],
                                );
                            }
                        }
                    }
                    e.s(c, "323", &[]);
                }
            }
            "LUSERS" => self.lusers(&mut e, c),
            "ISON" => {
                if p.is_empty() {
                    e.s(c, "461", &["ISON"]);
                } else {
                    let mut v: Vec<String> = p.iter().filter(|n| self.users.contains_key(**n)).map(|s| s.to_string()).collect();
                    v.sort();
                    e.sv(c, "303", v);
                }
            }
            "USERHOST" => {
                if p.is_empty() {
                    e.s(c, "461", &["USERHOST"]);
                } else if p.iter().any(|n| !valid_name(n)) {
                    e.s(c, "ERROR", &[]);
                } else {
                    let mut v: Vec<String> = p
                        .iter()
                        .filter_map(|n| self.users.get(*n))
                        .map(|u| {
                            format!(
                                "{}{}={}~{}@{}",
                                u.nick,
                                if u.is_local_oper() { "*" } else { "" },
                                if u.away.is_some() { '-' } else { '+' },
                                u.user,
                                u.host
                            )
                        })
                        .collect();
                    v.sort();
                    e.sv(c, "302", v);
                }
            }
            "MOTD" if p.is_empty() => {
                e.s(c, "375", &[]);
                let motd = self.cfg.motd.clone();
                e.s(c, "372", &[&motd]);
                e.s(c, "376", &[]);
            }
            "VERSION" if p.is_empty() => e.s(c, "351", &[]),
            "TIME" if p.is_empty() => e.s(c, "391", &[]),
            "INFO" => {
                e.s(c, "371", &[]);
                e.s(c, "374", &[]);
            }
            "LINKS" if p.is_empty() => {
                e.s(c, "364", &[]);
                e.s(c, "365", &[]);
            }
            "STATS" => {
                if p.is_empty() {
                    e.s(c, "461", &["STATS"]);
                } else if p.len() > 1 || p[0].chars().count() != 1 || !"chiklmouy".contains(p[0]) {
                    e.unknown = true;
                } else if self.users[&nick].is_local_oper() {
                    if p[0] == "u" {
                        e.s(c, "242", &[]);
                    }
                    e.s(c, "219", &[p[0]]);
                } else {
                    e.s(c, "481", &[]);
                    e.tag("priv:refused");
                }
            }
            "REHASH" | "RESTART" => e.s(c, "400", &[&verb]),
            _ => {
                // verbs (or arities) the model does not predict: only liveness is judged
                e.unknown = true;
            }
        }
        e
    }

    fn cap(&mut self, c: usize, p: &[&str], e: &mut Expect) {
        if p.is_empty() {
            e.s(c, "461", &["CAP"]);
            return;
        }
        match p[0].to_ascii_uppercase().as_str() {
            "LS" => {
                if let Some(v) = p.get(1) {
                    match v.parse::<u32>() {
                        Ok(n) if n >= 302 => {}
                        _ => {
                            e.s(c, "ERROR", &[]);
                            return;
                        }
                    }
                }
                if let ConnSt::Unreg { capneg, .. } = &mut self.conns[c].st {
                    *capneg = true;
                }
                e.s(c, "CAP", &["*", "LS", "multi-prefix"]);
            }
            "LIST" => {
                let caps = if self.conns[c].multi_prefix { "multi-prefix" } else { "" };
                e.s(c, "CAP", &["*", "LIST", caps]);
            }
            "REQ" => {
                if let ConnSt::Unreg { capneg, .. } = &mut self.conns[c].st {
                    *capneg = true;
                }
                if let Some(list) = p.get(1) {
                    let caps: Vec<&str> = list.split(' ').filter(|s| !s.is_empty()).collect();
                    let joined = caps.join(" ");
                    if caps.iter().all(|x| *x == "multi-prefix") {
                        if !caps.is_empty() {
                            self.conns[c].multi_prefix = true;
                        }
                        e.s(c, "CAP", &["*", "ACK", &joined]);
                    } else {
                        e.s(c, "CAP", &["*", "NAK", &joined]);
                    }
                }
            }
            "END" => {
                if let ConnSt::Unreg { capneg, .. } = &mut self.conns[c].st {
                    *capneg = false;
                }
                self.evaluate(c, e);
            }
            _ => e.s(c, "ERROR", &[]),
        }
    }

    fn unregistered(&mut self, c: usize, verb: &str, p: &[&str], e: &mut Expect) {
        match verb {
            "CAP" => self.cap(c, p, e),
            "AUTHENTICATE" => e.s(c, "421", &["AUTHENTICATE"]),
            "PASS" => {
                if p.is_empty() {
                    e.s(c, "461", &["PASS"]);
                    return;
                }
                if let ConnSt::Unreg { pass, .. } = &mut self.conns[c].st {
                    *pass = Some(p[0].to_string());
                }
                self.evaluate(c, e);
            }
            "NICK" => {
                if p.is_empty() {
                    e.s(c, "461", &["NICK"]);
                    return;
                }
                if !valid_name(p[0]) {
                    e.s(c, "ERROR", &[]);
                    e.tag("nick:invalid");
                    return;
                }
                if self.users.contains_key(p[0]) {
                    e.s(c, "433", &[p[0]]);
                    e.tag("nick:in-use");
                    return;
                }
                if let ConnSt::Unreg { nick, .. } = &mut self.conns[c].st {
                    *nick = Some(p[0].to_string());
                }
                self.evaluate(c, e);
            }
            "USER" => {
                if p.len() < 4 {
                    e.s(c, "461", &["USER"]);
                    return;
                }
                if !valid_name(p[0]) {
                    e.s(c, "ERROR", &[]);
                    return;
                }
                if let ConnSt::Unreg { user, .. } = &mut self.conns[c].st {
                    *user = Some((p[0].to_string(), p[3].to_string()));
                }
                self.evaluate(c, e);
            }
            "QUIT" => {
                e.s(c, "ERROR", &[]);
                e.closes.push(c);
                self.conns[c].st = ConnSt::Closed;
                e.tag("quit");
            }
            _ => {
                // every other command: ERR_NOTREGISTERED and nothing else.  (A line that does not
                // even parse as a command may instead get its parse error - not generated by
                // sound generators.)
                e.s(c, "451", &[]);
                e.tag("gated");
            }
        }
    }

    fn nick(&mut self, c: usize, cur: &str, p: &[&str], e: &mut Expect) {
        if p.is_empty() {
            e.s(c, "461", &["NICK"]);
            return;
        }
        let new = p[0];
        if !valid_name(new) {
            e.s(c, "ERROR", &[]);
            e.tag("nick:invalid");
            return;
        }
        if new == cur {
            // statement silent: nothing changes; the server may or may not answer
            e.unknown = true;
            e.tag("nick:same");
            return;
        }
        if self.users.contains_key(new) {
            e.s(c, "433", &[new]);
            e.tag("nick:in-use");
            return;
        }
        let old_src = self.users[cur].source();
        {
            let u = &self.users[cur];
            let ranked = u.chans.iter().any(|ch| self.chans[ch].members[cur].any());
            let mut v = String::new();
            if !u.chans.is_empty() {
                v.push('c');
            }
            if ranked {
                v.push('r');
            }
            if u.modes.contains(&'i') || u.modes.contains(&'w') {
                v.push('m');
            }
            if u.is_local_oper() {
                v.push('o');
            }
            if u.away.is_some() {
                v.push('a');
            }
            if !u.invited.is_empty() {
                v.push('v');
            }
            let kind = if self.whowas.contains_key(new) { "reused" } else { "fresh" };
            e.tag(format!("nickstate:{}:{}", v, kind));
        }
        let mut u = self.users.remove(cur).unwrap();
        self.whowas
            .entry(cur.to_string())
            .or_default()
            .push((u.user.clone(), u.host.clone(), u.real.clone()));
        u.nick = new.to_string();
        for ch in &u.chans {
            let co = self.chans.get_mut(ch).unwrap();
            if let Some(r) = co.members.remove(cur) {
                co.members.insert(new.to_string(), r);
            }
        }
        self.users.insert(new.to_string(), u);
        self.conns[c].st = ConnSt::Reg { nick: new.to_string() };
        // announced to the user itself and everyone sharing a channel; others are not judged
        for (n, o) in &self.users {
            if n == new || self.shares_channel(n, new) {
                e.r(o.conn, &old_src, "NICK", vec![new.to_string()]);
            } else {
                e.opt(o.conn, vec![old_src.clone(), "NICK".to_string(), new.to_string()]);
            }
        }
        e.tag("nick:changed");
    }

    fn join(&mut self, c: usize, nick: &str, p: &[&str], e: &mut Expect) {
        if p.is_empty() {
            e.s(c, "461", &["JOIN"]);
            return;
        }
        let chans: Vec<&str> = p[0].split(',').collect();
        let keys: Option<Vec<&str>> = p.get(1).map(|k| k.split(',').collect());
        if chans.iter().any(|ch| !valid_chan(ch)) || keys.as_ref().map_or(false, |k| k.len() != chans.len()) {
            e.s(c, "ERROR", &[]);
            return;
        }
        let src = self.users[nick].source();
        let multi = self.conns[c].multi_prefix;
        let mut joined = self.users[nick].chans.len();
        let mut accepted: Vec<String> = vec![];
        for (i, ch) in chans.iter().enumerate() {
            let ch = ch.to_string();
            let quota_full = self.cfg.max_joins.map_or(false, |m| joined >= m);
            match self.chans.get(&ch) {
                None => {
                    if accepted.contains(&ch) {
                        e.unknown = true; // duplicate name in one JOIN: not judged
                        continue;
                    }
                    if quota_full {
                        e.s(c, "405", &[&ch]);
                        e.tag("join:refused:quota-create");
                    } else {
                        accepted.push(ch.clone());
                        joined += 1;
                        e.tag("join:create");
                    }
                }
                Some(co) => {
                    if accepted.contains(&ch) {
                        // the same name twice in one JOIN: not judged
                        e.unknown = true;
                        continue;
                    }
                    if co.members.contains_key(nick) {
                        // JOIN by a current member: nothing changes; whether (and how) the server
                        // answers for this entry is not judged, the other entries are
                        for code in ["405", "471", "473", "474", "475"] {
                            e.opt(c, snl(code, &[&ch]));
                        }
                        e.tag("join:already-member");
                        continue;
                    }
                    let u = &self.users[nick];
                    let mut failing: Vec<NL> = vec![];
                    let mut cons = String::new();
                    if let Some(k) = &co.key {
                        cons.push('k');
                        if keys.as_ref().map(|ks| ks[i]) != Some(k.as_str()) {
                            failing.push(snl("475", &[&ch]));
                        }
                    }
                    if !co.ban.is_empty() {
                        cons.push('b');
                        if !co.except.is_empty() {
                            cons.push('e');
                        }
                        if co.banned(&src) {
                            failing.push(snl("474", &[&ch]));
                        }
                    }
                    if co.has('i') {
                        cons.push('i');
                        if u.invited.contains(&ch) {
                            cons.push('V');
                        }
                        if !co.invex.is_empty() {
                            cons.push('I');
                        }
                        if !(u.invited.contains(&ch) || co.invex.iter().any(|m| glob(m, &src))) {
                            failing.push(snl("473", &[&ch]));
                        }
                    }
                    if let Some(l) = co.limit {
                        cons.push('l');
                        // members already accepted earlier in this command count as present
                        if co.members.len() >= l {
                            failing.push(snl("471", &[&ch]));
                        }
                    }
                    if self.cfg.max_joins.is_some() {
                        cons.push('j');
                    }
                    if quota_full {
                        failing.push(snl("405", &[&ch]));
                    }
                    if failing.is_empty() {
                        accepted.push(ch.clone());
                        joined += 1;
                        e.tag(format!("join:accept:{}", cons));
                    } else {
                        let codes: Vec<String> = failing.iter().map(|f| f[1].clone()).collect();
                        e.tag(format!("join:refused:{}:{}", cons, codes.join("+")));
                        e.any_of.push((c, failing));
                    }
                }
            }
        }
        // apply
        for ch in &accepted {
            let created = !self.chans.contains_key(ch);
            let co = self.chans.entry(ch.clone()).or_default();
            let mut r = Rank::default();
            if created {
                r.q = true;
                r.o = true;
            } else {
                for l in ['q', 'a', 'o', 'h', 'v'] {
                    if co.def.get(&l).map_or(false, |s| s.contains(nick)) {
                        r.set(l, true);
                    }
                }
            }
            co.members.insert(nick.to_string(), r);
            let u = self.users.get_mut(nick).unwrap();
            u.chans.insert(ch.clone());
            u.invited.remove(ch);
        }
        // announce (state after all joins of the command)
        for ch in &accepted {
            e.r(c, &src, "JOIN", vec![ch.clone()]);
            let co = &self.chans[ch];
            if let Some(t) = &co.topic {
                e.sv(c, "332", vec![ch.clone(), t.clone()]);
            }
            let mut a = vec![ch.clone(), if co.has('s') { "@" } else { "=" }.to_string()];
            a.extend(self.names_entries(ch, nick, multi, false));
            e.sv(c, "353", a);
            e.s(c, "366", &[ch]);
            for n in co.members.keys() {
                if n != nick {
                    e.r(self.users[n].conn, &src, "JOIN", vec![ch.clone()]);
                }
            }
        }
    }

    fn drop_member(&mut self, ch: &str, nick: &str) {
        let mut del = false;
        if let Some(co) = self.chans.get_mut(ch) {
            co.members.remove(nick);
            del = co.members.is_empty() && !co.predefined;
        }
        if del {
            self.chans.remove(ch);
        }
        if let Some(u) = self.users.get_mut(nick) {
            u.chans.remove(ch);
        }
    }

    fn part(&mut self, c: usize, nick: &str, p: &[&str], e: &mut Expect) {
        if p.is_empty() {
            e.s(c, "461", &["PART"]);
            return;
        }
        let chans: Vec<&str> = p[0].split(',').collect();
        if chans.iter().any(|ch| !valid_chan(ch)) {
            e.s(c, "ERROR", &[]);
            return;
        }
        let src = self.users[nick].source();
        for ch in chans {
            match self.chans.get(ch) {
                None => e.s(c, "403", &[ch]),
                Some(co) if !co.members.contains_key(nick) => e.s(c, "442", &[ch]),
                Some(co) => {
                    let mut args = vec![ch.to_string()];
                    if let Some(r) = p.get(1) {
                        args.push(r.to_string());
                    }
                    for n in co.members.keys() {
                        e.r(self.users[n].conn, &src, "PART", args.clone());
                    }
                    self.drop_member(ch, nick);
                    e.tag("part:done");
                }
            }
        }
    }

    fn kick(&mut self, c: usize, nick: &str, p: &[&str], e: &mut Expect) {
        if p.len() < 2 {
            e.s(c, "461", &["KICK"]);
            return;
        }
        let ch = p[0];
        let victims: Vec<&str> = p[1].split(',').collect();
        if !valid_chan(ch) || victims.iter().any(|v| !valid_name(v)) {
            e.s(c, "ERROR", &[]);
            return;
        }
        let src = self.users[nick].source();
        let Some(co) = self.chans.get(ch) else {
            e.s(c, "403", &[ch]);
            e.tag("kick:nochan");
            return;
        };
        let Some(ar) = co.members.get(nick).copied() else {
            e.s(c, "442", &[ch]);
            return;
        };
        if !ar.half_plus() {
            e.s(c, "482", &[ch]);
            e.tag("kick:refused:rank");
            return;
        }
        let mut kicked: Vec<String> = vec![];
        for v in &victims {
            if kicked.iter().any(|k| k == v) {
                // repeated name: the first occurrence decides, the rest is not judged
                e.opt(c, snl("441", &[v, ch]));
                e.tag("kick:repeat");
                continue;
            }
            match co.members.get(*v) {
                None => {
                    e.s(c, "441", &[v, ch]);
                }
                Some(vr) => {
                    if vr.prot_plus() || (ar.only_h() && vr.half_plus()) {
                        e.s(c, "972", &[]);
                        e.tag(format!("kick:refused:{}>{}", ar.letters(), vr.letters()));
                    } else {
                        kicked.push(v.to_string());
                        e.tag(format!("kick:done:{}>{}", ar.letters(), vr.letters()));
                    }
                }
            }
        }
        let comment = p.get(2).map(|s| s.to_string()).unwrap_or_else(|| "Kicked".to_string());
        let before: Vec<String> = co.members.keys().cloned().collect();
        for k in &kicked {
            self.drop_member(ch, k);
        }
        let remaining: Vec<String> = self.chans.get(ch).map(|co| co.members.keys().cloned().collect()).unwrap_or_default();
        for k in &kicked {
            let args = vec![ch.to_string(), k.clone(), comment.clone()];
            for n in &before {
                let conn = self.users[n].conn;
                if remaining.contains(n) || n == k {
                    e.r(conn, &src, "KICK", args.clone());
                } else {
                    // another victim of the same command: not judged
                    e.opt(conn, {
                        let mut v = vec![src.clone(), "KICK".to_string()];
                        v.extend(args.clone());
                        v
                    });
                }
            }
        }
    }

    fn topic(&mut self, c: usize, nick: &str, p: &[&str], e: &mut Expect) {
        if p.is_empty() {
            e.s(c, "461", &["TOPIC"]);
            return;
        }
        let ch = p[0];
        if !valid_chan(ch) {
            e.s(c, "ERROR", &[]);
            return;
        }
        let src = self.users[nick].source();
        let Some(co) = self.chans.get_mut(ch) else {
            e.s(c, "403", &[ch]);
            return;
        };
        let Some(r) = co.members.get(nick).copied() else {
            e.s(c, "442", &[ch]);
            e.tag("topic:refused:outsider");
            return;
        };
        if let Some(t) = p.get(1) {
            if co.has('t') && !r.half_plus() {
                e.s(c, "482", &[ch]);
                e.tag("topic:refused:rank");
                return;
            }
            co.topic = if t.is_empty() { None } else { Some(t.to_string()) };
            let args: Vec<String> = p.iter().map(|s| s.to_string()).collect();
            let members: Vec<String> = co.members.keys().cloned().collect();
            for n in members {
                e.r(self.users[&n].conn, &src, "TOPIC", args.clone());
            }
            e.tag(if t.is_empty() { "topic:cleared" } else { "topic:set" });
        } else {
            match &co.topic {
                Some(t) => {
                    e.sv(c, "332", vec![ch.to_string(), t.clone()]);
                    e.s(c, "333", &[ch]);
                }
                None => e.s(c, "331", &[ch]),
            }
        }
    }

    fn invite(&mut self, c: usize, nick: &str, p: &[&str], e: &mut Expect) {
        if p.len() < 2 {
            e.s(c, "461", &["INVITE"]);
            return;
        }
        let (target, ch) = (p[0], p[1]);
        if !valid_name(target) || !valid_chan(ch) {
            e.s(c, "ERROR", &[]);
            return;
        }
        let src = self.users[nick].source();
        let Some(co) = self.chans.get(ch) else {
            e.s(c, "403", &[ch]);
            return;
        };
        let Some(r) = co.members.get(nick).copied() else {
            e.s(c, "442", &[ch]);
            e.tag("invite:refused:outsider");
            return;
        };
        let refused_482 = co.has('i') && !r.o;
        let dontcare = co.has('i') && !r.o && r.prot_plus();
        let on_chan = co.members.contains_key(target);
        let honoured = |m: &mut Model, e: &mut Expect| {
            if on_chan {
                e.s(c, "443", &[target, ch]);
            } else if let Some(tu) = m.users.get_mut(target) {
                tu.invited.insert(ch.to_string());
                let tc = tu.conn;
                e.s(c, "341", &[target, ch]);
                e.r(tc, &src, "INVITE", p.iter().map(|s| s.to_string()).collect());
                e.tag("invite:done");
            } else {
                e.s(c, "401", &[target]);
            }
        };
        if refused_482 {
            if dontcare {
                // founder/protected without the operator flag on +i: not defined by the statement
                let mut m2 = self.clone();
                let mut e2 = e.clone();
                honoured(&mut m2, &mut e2);
                e.alts.push((e2, Box::new(m2)));
            }
            e.s(c, "482", &[ch]);
            e.tag("invite:refused:rank");
            return;
        }
        honoured(self, e);
    }

    fn oper(&mut self, c: usize, nick: &str, p: &[&str], e: &mut Expect) {
        if p.len() < 2 {
            e.s(c, "461", &["OPER"]);
            return;
        }
        if !valid_name(p[0]) {
            e.s(c, "ERROR", &[]);
            return;
        }
        let src = self.users[nick].source();
        match self.cfg.opers.iter().find(|o| o.name == p[0]) {
            None => {
                e.s(c, "491", &[]);
                e.tag("oper:refused:name");
            }
            Some(o) => {
                let pw_ok = o.password == p[1];
                let mask_ok = o.mask.as_ref().map_or(true, |m| glob(m, &src));
                if pw_ok && mask_ok {
                    self.users.get_mut(nick).unwrap().modes.insert('o');
                    e.s(c, "381", &[]);
                    e.tag("oper:granted");
                } else {
                    // which of the refusals is reported when both apply is not judged
                    let mut f = vec![];
                    if !pw_ok {
                        f.push(snl("464", &[]));
                    }
                    if !mask_ok {
                        f.push(snl("491", &[]));
                    }
                    e.any_of.push((c, f));
                    e.tag(if !pw_ok { "oper:refused:password" } else { "oper:refused:mask" });
                }
            }
        }
    }

    fn privmsg(&mut self, c: usize, nick: &str, verb: &str, p: &[&str], e: &mut Expect) {
        if p.len() < 2 {
            e.s(c, "461", &[verb]);
            return;
        }
        let notice = verb == "NOTICE";
        let text = p[1];
        let src = self.users[nick].source();
        let mut seen: BTreeSet<&str> = BTreeSet::new();
        for t in p[0].split(',') {
            let is_chan = split_status_target(t);
            if is_chan.is_none() && !valid_name(t) {
                let mut e2 = Expect::default();
                e2.s(c, "ERROR", &[]);
                *e = e2;
                return;
            }
        }
        for t in p[0].split(',') {
            if !seen.insert(t) {
                e.tag("send:dup-target");
                continue;
            }
            let args = vec![t.to_string(), text.to_string()];
            if let Some((status, ch)) = split_status_target(t) {
                let Some(co) = self.chans.get(&ch) else {
                    if !notice {
                        e.s(c, "403", &[&ch]);
                    }
                    e.tag("send:nochan");
                    continue;
                };
                let r = co.members.get(nick).copied();
                let member = r.is_some();
                let banned = co.banned(&src);
                let deliver = (member || (!co.has('n') && !co.has('s')))
                    && !banned
                    && (!co.has('m') || r.map_or(false, |r| r.voice_plus()));
                let mut cond = String::new();
                if !member {
                    cond.push('x');
                }
                for f in ['n', 's', 'm'] {
                    if co.has(f) {
                        cond.push(f);
                    }
                }
                if !co.ban.is_empty() {
                    cond.push('b');
                }
                if !co.except.is_empty() {
                    cond.push('e');
                }
                if deliver {
                    let mut n_aud = 0;
                    for (n, mr) in &co.members {
                        if n == nick {
                            continue;
                        }
                        if status.is_empty() || status.iter().any(|l| mr.get(*l)) {
                            e.r(self.users[n].conn, &src, verb, args.clone());
                            n_aud += 1;
                        }
                    }
                    e.send_targets.push((t.to_string(), true, n_aud));
                    e.tag(format!("send:chan:ok:{}:{}:{}", cond, status.iter().collect::<String>(), n_aud.min(3)));
                } else {
                    if !notice {
                        e.s(c, "404", &[&ch]);
                    }
                    e.send_targets.push((t.to_string(), false, 0));
                    e.tag(format!("send:chan:refused:{}", cond));
                }
            } else if let Some(tu) = self.users.get(t) {
                if t == nick {
                    // a copy of a self-addressed message: not judged
                    let mut v = vec![src.clone(), verb.to_string()];
                    v.extend(args.clone());
                    e.opt(c, v);
                    e.tag("send:self");
                } else {
                    e.r(tu.conn, &src, verb, args.clone());
                    e.send_targets.push((t.to_string(), true, 1));
                    e.tag("send:nick:ok");
                }
                if !notice {
                    if let Some(a) = &tu.away {
                        e.s(c, "301", &[t, a]);
                        e.tag("send:away");
                    }
                }
            } else {
                if !notice {
                    e.s(c, "401", &[t]);
                }
                e.tag("send:nonick");
            }
        }
    }

    fn who(&mut self, c: usize, nick: &str, p: &[&str], e: &mut Expect) {
        if p.is_empty() {
            // WHO without a mask: not defined for this server
            e.unknown = true;
            return;
        }
        let mask = p[0];
        let multi = self.conns[c].multi_prefix;
        if mask.contains('*') || mask.contains('?') {
            for (n, u) in &self.users {
                if (glob(mask, n) || glob(mask, &u.source()) || glob(mask, &u.real)) && self.visible_to(n, nick) {
                    e.sv(c, "352", self.who_line(u, None, multi));
                }
            }
        } else if valid_chan(mask) {
            if let Some(co) = self.chans.get(mask) {
                if !co.has('s') || co.members.contains_key(nick) {
                    for (n, r) in &co.members {
                        if self.visible_to(n, nick) {
                            e.sv(c, "352", self.who_line(&self.users[n], Some((mask, r)), multi));
                        }
                    }
                }
            }
        } else if valid_name(mask) {
            if let Some(u) = self.users.get(mask) {
                if self.visible_to(mask, nick) {
                    e.sv(c, "352", self.who_line(u, None, multi));
                }
            }
        }
        e.s(c, "315", &[mask]);
    }

    fn whois(&mut self, c: usize, nick: &str, p: &[&str], e: &mut Expect) {
        if p.is_empty() {
            e.s(c, "461", &["WHOIS"]);
            return;
        }
        if p.len() > 1 {
            e.unknown = true;
            return;
        }
        let masks: Vec<&str> = p[0].split(',').collect();
        if masks.iter().any(|m| !valid_name(m)) {
            e.s(c, "ERROR", &[]);
            return;
        }
        let multi = self.conns[c].multi_prefix;
        let mut targets: BTreeSet<String> = BTreeSet::new();
        for m in &masks {
            if m.contains('*') || m.contains('?') {
                for n in self.users.keys() {
                    if glob(m, n) {
                        targets.insert(n.clone());
                    }
                }
            } else if self.users.contains_key(*m) {
                targets.insert(m.to_string());
            }
        }
        let mut alt = e.clone();
        let mut differs = false;
        for t in &targets {
            if !self.visible_to(t, nick) {
                continue;
            }
            let u = &self.users[t];
            for ex in [&mut *e, &mut alt] {
                if u.modes.contains(&'r') {
                    ex.s(c, "307", &[t]);
                }
                ex.sv(c, "311", vec![t.clone(), format!("~{}", u.user), u.host.clone(), u.real.clone()]);
                ex.s(c, "312", &[t]);
                if u.is_local_oper() {
                    ex.s(c, "313", &[t]);
                    ex.s(c, "378", &[t]);
                    ex.s(c, "379", &[t]);
                }
                ex.s(c, "317", &[t]);
            }
            // channel list: secret channels are hidden from non-members; whether a member of the
            // secret channel sees it is not judged (alternative)
            let mut pub_ch = vec![];
            let mut all_ch = vec![];
            for ch in &u.chans {
                let co = &self.chans[ch];
                let ent = format!("{}{}", co.members[t].prefix(multi), ch);
                if !co.has('s') {
                    pub_ch.push(ent.clone());
                    all_ch.push(ent);
                } else if co.members.contains_key(nick) {
                    all_ch.push(ent);
                    differs = true;
                }
            }
            pub_ch.sort();
            all_ch.sort();
            if !pub_ch.is_empty() {
                let mut a = vec![t.clone()];
                a.extend(pub_ch);
                e.sv(c, "319", a);
            }
            if !all_ch.is_empty() {
                let mut a = vec![t.clone()];
                a.extend(all_ch);
                alt.sv(c, "319", a);
            }
        }
        e.s(c, "318", &[p[0]]);
        alt.s(c, "318", &[p[0]]);
        if differs {
            e.alts.push((alt, Box::new(self.clone())));
        }
    }

    fn mode(&mut self, c: usize, nick: &str, p: &[&str], e: &mut Expect) {
        if p.is_empty() {
            e.s(c, "461", &["MODE"]);
            return;
        }
        let target = p[0];
        if valid_chan(target) {
            self.mode_chan(c, nick, p, e);
        } else if valid_name(target) {
            self.mode_user(c, nick, p, e);
        } else {
            e.s(c, "ERROR", &[]);
        }
    }

    fn mode_user(&mut self, c: usize, nick: &str, p: &[&str], e: &mut Expect) {
        let target = p[0];
        // syntax: every group starts with +/-, only letters i o O r w, no arguments
        let groups = &p[1..];
        for (i, g) in groups.iter().enumerate() {
            let _ = i;
            if !(g.starts_with('+') || g.starts_with('-')) {
                e.unknown = true; // invalid parameter class; exact reply not modelled
                return;
            }
            if g.chars().any(|ch| !"+-ioOrw".contains(ch)) {
                e.s(c, "501", &[]);
                return;
            }
        }
        if target != nick {
            if self.users.contains_key(target) {
                e.s(c, "502", &[]);
                e.tag("umode:foreign");
            } else {
                e.s(c, "401", &[target]);
            }
            return;
        }
        if groups.is_empty() {
            let ms = Self::modes_str(&self.users[nick]);
            e.s(c, "221", &[&ms]);
            return;
        }
        let src = self.users[nick].source();
        let mut changes: Vec<String> = vec![];
        let u = self.users.get_mut(nick).unwrap();
        for g in groups {
            let mut sign = '+';
            for ch in g.chars() {
                match ch {
                    '+' | '-' => sign = ch,
                    'i' | 'w' => {
                        if sign == '+' && u.modes.insert(ch) {
                            changes.push(format!("+{}", ch));
                        } else if sign == '-' && u.modes.remove(&ch) {
                            changes.push(format!("-{}", ch));
                        }
                    }
                    'o' | 'O' => {
                        if sign == '+' {
                            if !u.modes.contains(&ch) {
                                // must not confer operator status
                                e.s(c, "481", &[]);
                                e.tag("umode:+oper-attempt");
                            }
                        } else if u.modes.remove(&ch) {
                            changes.push(format!("-{}", ch));
                            e.tag("umode:-oper");
                        } else if ch == 'O' && u.modes.remove(&'o') {
                            // an operator is a local operator too: -O gives up the status
                            changes.push("-O".to_string());
                            e.tag("umode:-oper");
                        }
                    }
                    'r' => {
                        // registered flag: not covered by the statements
                        e.unknown = true;
                    }
                    _ => {}
                }
            }
        }
        if !changes.is_empty() {
            changes.sort();
            let mut a = vec![nick.to_string()];
            a.extend(changes);
            e.r(c, &src, "MODE", a);
            e.tag("umode:changed");
        }
    }

    fn mode_chan(&mut self, c: usize, nick: &str, p: &[&str], e: &mut Expect) {
        let chname = p[0];
        let src = self.users[nick].source();
        // split into groups (modestring, args)
        let mut groups: Vec<(&str, Vec<&str>)> = vec![];
        for t in &p[1..] {
            if t.starts_with('+') || t.starts_with('-') {
                groups.push((t, vec![]));
            } else if let Some(g) = groups.last_mut() {
                g.1.push(t);
            } else {
                e.s(c, "ERROR", &[]);
                return;
            }
        }
        // syntactic validation as far as the statement's "invalid parameter" class goes:
        // unknown letter -> 472; missing argument for q a o h v / +l / +k, bad +l value,
        // argument left over after -l / -k -> 696
        for (ms, args) in &groups {
            let mut it = args.iter();
            let mut sign = '+';
            for ch in ms.chars() {
                match ch {
                    '+' | '-' => sign = ch,
                    'b' | 'e' | 'I' => {
                        it.next();
                    }
                    'q' | 'a' | 'o' | 'h' | 'v' => match it.next() {
                        Some(a) if valid_name(a) => {}
                        _ => {
                            e.s(c, "696", &[]);
                            e.unknown = true;
                            return;
                        }
                    },
                    'l' | 'k' => {
                        if sign == '+' {
                            match it.next() {
                                Some(a) if ch == 'k' || a.parse::<usize>().is_ok() => {}
                                _ => {
                                    e.unknown = true;
                                    return;
                                }
                            }
                        } else if it.next().is_some() {
                            e.unknown = true;
                            return;
                        }
                    }
                    'i' | 'm' | 't' | 'n' | 's' => {}
                    _ => {
                        e.unknown = true;
                        return;
                    }
                }
            }
        }
        let Some(co) = self.chans.get(chname) else {
            e.s(c, "403", &[chname]);
            return;
        };
        let Some(ar) = co.members.get(nick).copied() else {
            e.s(c, "442", &[chname]);
            e.tag("cmode:refused:outsider");
            return;
        };
        if groups.is_empty() {
            let mut a = vec![chname.to_string()];
            let mut flags: Vec<char> = co.flags.iter().cloned().collect();
            if co.key.is_some() {
                flags.push('k');
            }
            if co.limit.is_some() {
                flags.push('l');
            }
            flags.sort();
            a.push(format!("flags:{}", flags.iter().collect::<String>()));
            if let Some(k) = &co.key {
                a.push(format!("key:{}", k));
            }
            if let Some(l) = co.limit {
                a.push(format!("limit:{}", l));
            }
            let mut items = vec![];
            for b in &co.ban {
                items.push(format!("+b {}", b));
            }
            for b in &co.except {
                items.push(format!("+e {}", b));
            }
            for b in &co.invex {
                items.push(format!("+I {}", b));
            }
            for (n, r) in &co.members {
                for l in ['q', 'a', 'o', 'h', 'v'] {
                    if r.get(l) {
                        items.push(format!("+{} {}", l, n));
                    }
                }
            }
            items.sort();
            a.extend(items);
            e.sv(c, "324", a);
            e.s(c, "329", &[chname]);
            return;
        }
        let mut changes: Vec<String> = vec![];
        let mut refused = 0;
        let mut co = self.chans.get(chname).unwrap().clone();
        for (ms, args) in &groups {
            let mut it = args.iter();
            let mut sign = '+';
            for ch in ms.chars() {
                match ch {
                    '+' | '-' => sign = ch,
                    'b' | 'e' | 'I' => {
                        let list = match ch {
                            'b' => &mut co.ban,
                            'e' => &mut co.except,
                            _ => &mut co.invex,
                        };
                        match it.next() {
                            None => {
                                // list query, allowed to any member
                                let (item, end) = match ch {
                                    'b' => ("367", "368"),
                                    'e' => ("348", "349"),
                                    _ => ("346", "347"),
                                };
                                for m in list.iter() {
                                    e.sv(c, item, vec![chname.to_string(), m.clone()]);
                                }
                                e.s(c, end, &[chname]);
                            }
                            Some(m) => {
                                if ar.half_plus() {
                                    let nm = normalise(m);
                                    if sign == '+' {
                                        list.insert(nm.clone());
                                    } else {
                                        list.remove(&nm);
                                    }
                                    changes.push(format!("{}{} {}", sign, ch, nm));
                                } else {
                                    e.s(c, "482", &[chname]);
                                    refused += 1;
                                }
                            }
                        }
                    }
                    'q' | 'a' | 'o' | 'h' | 'v' => {
                        let t = it.next().unwrap();
                        let permitted = match ch {
                            'q' => ar.q,
                            'a' => ar.prot_plus(),
                            'o' | 'h' => ar.op_plus(),
                            _ => ar.half_plus(),
                        };
                        let present = co.members.contains_key(*t);
                        if !permitted {
                            e.s(c, "482", &[chname]);
                            refused += 1;
                            if !present {
                                e.opt(c, snl("441", &[t, chname]));
                            }
                        } else if !present {
                            e.s(c, "441", &[t, chname]);
                        } else {
                            co.members.get_mut(*t).unwrap().set(ch, sign == '+');
                            changes.push(format!("{}{} {}", sign, ch, t));
                        }
                    }
                    'l' | 'k' => {
                        let arg = if sign == '+' { it.next() } else { None };
                        if !ar.half_plus() {
                            e.s(c, "482", &[chname]);
                            refused += 1;
                        } else if sign == '+' {
                            let a = arg.unwrap();
                            if ch == 'l' {
                                co.limit = Some(a.parse::<usize>().unwrap());
                            } else {
                                co.key = Some(a.to_string());
                            }
                            changes.push(format!("+{} {}", ch, a));
                        } else {
                            if ch == 'l' {
                                co.limit = None;
                            } else {
                                co.key = None;
                            }
                            changes.push(format!("-{}", ch));
                        }
                    }
                    'i' | 'm' | 't' | 'n' | 's' => {
                        if !ar.half_plus() {
                            e.s(c, "482", &[chname]);
                            refused += 1;
                        } else {
                            if sign == '+' {
                                co.flags.insert(ch);
                            } else {
                                co.flags.remove(&ch);
                            }
                            changes.push(format!("{}{}", sign, ch));
                        }
                    }
                    _ => {}
                }
            }
        }
        {
            let applied: String = changes.iter().map(|c| c.chars().take(2).collect::<String>()).collect();
            e.tag(format!("cmodesig:{}:{}:{}", ar.letters(), applied, refused.min(3)));
            if refused > 0 && !changes.is_empty() {
                e.tag("cmode:mixed");
            }
        }
        if refused > 0 {
            e.tag("cmode:some-refused");
        }
        if !changes.is_empty() {
            e.tag("cmode:some-applied");
            changes.sort();
            let mut a = vec![chname.to_string()];
            a.extend(changes);
            for n in co.members.keys() {
                e.r(self.users[n].conn, &src, "MODE", a.clone());
            }
        }
        self.chans.insert(chname.to_string(), co);
    }
}
