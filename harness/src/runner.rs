// Parallel, seeded exploration driver on top of proptest's TestRunner, with shrinking,
// replay files, evidence accounting and known-findings handling.

use proptest::strategy::Strategy;
use proptest::test_runner::{Config, RngAlgorithm, RngSeed, TestCaseError, TestError, TestRunner};
use serde::de::DeserializeOwned;
use serde::Serialize;
use serde_json::{json, Value};
use std::cell::RefCell;
use std::collections::{BTreeMap, HashSet};
use std::fmt::Debug;
use std::panic::{catch_unwind, AssertUnwindSafe};
use std::sync::atomic::{AtomicBool, AtomicU64, Ordering};
use std::sync::Mutex;
use std::time::Instant;

pub const VERIF_DIR: &str = "/verif";

// where evidence and replay files are written (overridable for scratch runs, e.g. the mutant matrix)
pub fn out_dir() -> String {
    std::env::var("SIRC_VERIF_OUT").unwrap_or_else(|_| VERIF_DIR.to_string())
}

#[derive(Clone, Copy, Debug, PartialEq, Eq)]
pub enum Tier {
    Quick,
    Thorough,
}

impl Tier {
    pub fn name(&self) -> &'static str {
        match self {
            Tier::Quick => "quick",
            Tier::Thorough => "thorough",
        }
    }
    pub fn pick<T>(&self, q: T, t: T) -> T {
        match self {
            Tier::Quick => q,
            Tier::Thorough => t,
        }
    }
}

pub struct RunCtx {
    pub id: String,
    pub tier: Tier,
    pub seed: u64,
    pub workers: usize,
    pub known: Vec<KnownFinding>,
    pub machinery_error: AtomicBool,
    pub machinery_msgs: Mutex<Vec<String>>,
}

#[derive(Clone, Debug)]
pub struct KnownFinding {
    pub id: String,
    pub property: String,
    pub status: String,
    pub signature: String,
    pub what: String,
    pub replay: Option<String>,
    pub commit: Option<String>,
}

pub fn load_known() -> Vec<KnownFinding> {
    let p = format!("{}/known_findings.json", VERIF_DIR);
    let Ok(s) = std::fs::read_to_string(&p) else {
        return vec![];
    };
    let v: Value = serde_json::from_str(&s).unwrap_or(Value::Null);
    let mut out = vec![];
    if let Some(a) = v.as_array() {
        for e in a {
            let g = |k: &str| e.get(k).and_then(|x| x.as_str()).map(|x| x.to_string());
            out.push(KnownFinding {
                id: g("id").unwrap_or_default(),
                property: g("property").unwrap_or_default(),
                status: g("status").unwrap_or_default(),
                signature: g("signature").unwrap_or_default(),
                what: g("what").unwrap_or_default(),
                replay: g("replay"),
                commit: g("commit"),
            });
        }
    }
    out
}

#[derive(Clone, Debug)]
pub struct Viol {
    pub predicate: String,
    // stable identity of the failure (used to match known findings); no line numbers
    pub signature: String,
    pub explanation: String,
    pub transcript: Vec<String>,
}

impl Viol {
    pub fn new(predicate: &str, signature: impl Into<String>, explanation: impl Into<String>) -> Viol {
        Viol {
            predicate: predicate.to_string(),
            signature: signature.into(),
            explanation: explanation.into(),
            transcript: vec![],
        }
    }
    pub fn with_transcript(mut self, t: Vec<String>) -> Viol {
        self.transcript = t;
        self
    }
}

#[derive(Default)]
pub struct Stats {
    pub evaluations: u64,
    pub nontrivial: HashSet<String>,
    pub samples: Vec<Value>,
    pub counters: BTreeMap<String, u64>,
    pub frozen: bool,
}

impl Stats {
    pub fn count(&mut self, k: &str) {
        self.add(k, 1);
    }
    pub fn add(&mut self, k: &str, n: u64) {
        if !self.frozen {
            *self.counters.entry(k.to_string()).or_insert(0) += n;
        }
    }
    // register a non-trivial case by its shape signature; keeps the first few as samples
    pub fn nontrivial(&mut self, sig: String, sample: impl FnOnce() -> Value) {
        if self.frozen {
            return;
        }
        if self.nontrivial.insert(sig) && self.samples.len() < 4 {
            self.samples.push(sample());
        }
    }
    pub fn merge(&mut self, o: Stats) {
        self.evaluations += o.evaluations;
        for s in o.nontrivial {
            self.nontrivial.insert(s);
        }
        for s in o.samples {
            if self.samples.len() < 8 {
                self.samples.push(s);
            }
        }
        for (k, v) in o.counters {
            *self.counters.entry(k).or_insert(0) += v;
        }
    }
}

pub struct PartOutcome {
    pub name: String,
    pub stats: Stats,
    pub failure: Option<(Value, Viol)>,
    pub known_hits: BTreeMap<String, u64>,
    pub exhaustive: bool,
}

fn fnv(s: &str) -> u64 {
    let mut h: u64 = 0xcbf29ce484222325;
    for b in s.bytes() {
        h ^= b as u64;
        h = h.wrapping_mul(0x100000001b3);
    }
    h
}

impl RunCtx {
    pub fn is_known(&self, v: &Viol) -> Option<&KnownFinding> {
        self.known
            .iter()
            .find(|k| k.status == "known" && k.property == self.id && k.signature == v.signature)
    }
    pub fn machinery(&self, msg: String) {
        self.machinery_error.store(true, Ordering::SeqCst);
        self.machinery_msgs.lock().unwrap().push(msg);
    }
}

fn call_guarded<T>(
    ctx: &RunCtx,
    f: &(impl Fn(&T, &mut Stats) -> Result<(), Viol> + Sync),
    v: &T,
    st: &mut Stats,
) -> Result<(), Viol> {
    match catch_unwind(AssertUnwindSafe(|| f(v, st))) {
        Ok(r) => r,
        Err(e) => {
            crate::sim::set_in_sim(false);
            let msg = if let Some(s) = e.downcast_ref::<&str>() {
                s.to_string()
            } else if let Some(s) = e.downcast_ref::<String>() {
                s.clone()
            } else {
                "panic".to_string()
            };
            ctx.machinery(format!("harness panic: {}", msg));
            Ok(())
        }
    }
}

// Random exploration: `cases` generated inputs split over the workers.
pub fn explore<T, S>(
    ctx: &RunCtx,
    part: &str,
    cases: u64,
    strat: impl Fn() -> S + Sync,
    f: impl Fn(&T, &mut Stats) -> Result<(), Viol> + Sync,
) -> PartOutcome
where
    T: Debug + Clone + Serialize + Send,
    S: Strategy<Value = T>,
{
    explore_with(ctx, part, cases, 3000, strat, f)
}

// `shrink_iters` bounds the shrinking effort (expensive oracles use a small bound)
pub fn explore_with<T, S>(
    ctx: &RunCtx,
    part: &str,
    cases: u64,
    shrink_iters: u32,
    strat: impl Fn() -> S + Sync,
    f: impl Fn(&T, &mut Stats) -> Result<(), Viol> + Sync,
) -> PartOutcome
where
    T: Debug + Clone + Serialize + Send,
    S: Strategy<Value = T>,
{
    let w = ctx.workers.max(1) as u64;
    // debugging aid: VERIF_ONLY_PART=<name> runs a single part, VERIF_CASES=<n> overrides the count
    let mut cases = cases;
    if let Ok(only) = std::env::var("VERIF_ONLY_PART") {
        if only != part {
            cases = 0;
        }
    }
    if let Some(n) = std::env::var("VERIF_CASES").ok().and_then(|x| x.parse::<u64>().ok()) {
        if cases > 0 {
            cases = n;
        }
    }
    let stop = AtomicBool::new(false);
    let results: Mutex<Vec<(Stats, Option<(T, Viol)>, BTreeMap<String, u64>)>> = Mutex::new(vec![]);
    std::thread::scope(|sc| {
        for wi in 0..w {
            let stop = &stop;
            let results = &results;
            let strat = &strat;
            let f = &f;
            sc.spawn(move || {
                let my_cases = cases / w + if wi < cases % w { 1 } else { 0 };
                let mut stats = Stats::default();
                let mut known_hits: BTreeMap<String, u64> = BTreeMap::new();
                if my_cases == 0 {
                    results.lock().unwrap().push((stats, None, known_hits));
                    return;
                }
                let mut sb = [0u8; 32];
                sb[..8].copy_from_slice(&ctx.seed.to_le_bytes());
                sb[8..16].copy_from_slice(&fnv(part).to_le_bytes());
                sb[16..24].copy_from_slice(&wi.to_le_bytes());
                sb[24..32].copy_from_slice(&fnv(&ctx.id).to_le_bytes());
                let cfg = Config {
                    cases: my_cases as u32,
                    failure_persistence: None,
                    max_shrink_iters: shrink_iters,
                    max_global_rejects: 1 << 20,
                    rng_algorithm: RngAlgorithm::ChaCha,
                    rng_seed: RngSeed::Fixed(ctx.seed),
                    ..Config::default()
                };
                let rng = proptest::test_runner::TestRng::from_seed(RngAlgorithm::ChaCha, &sb);
                let mut runner = TestRunner::new_with_rng(cfg, rng);
                let first_fail: RefCell<Option<(T, Viol)>> = RefCell::new(None);
                let stats_c = RefCell::new(std::mem::take(&mut stats));
                let known_c = RefCell::new(std::mem::take(&mut known_hits));
                let res = runner.run(&strat(), |v: T| {
                    let failed = first_fail.borrow().is_some();
                    if stop.load(Ordering::Relaxed) && !failed {
                        return Ok(());
                    }
                    let r = if !failed {
                        let mut st = stats_c.borrow_mut();
                        st.evaluations += 1;
                        call_guarded(ctx, f, &v, &mut st)
                    } else {
                        let mut scratch = Stats::default();
                        scratch.frozen = true;
                        call_guarded(ctx, f, &v, &mut scratch)
                    };
                    match r {
                        Ok(()) => Ok(()),
                        Err(viol) => {
                            if let Some(k) = ctx.is_known(&viol) {
                                if !failed {
                                    *known_c.borrow_mut().entry(k.id.clone()).or_insert(0) += 1;
                                }
                                return Ok(());
                            }
                            if !failed {
                                *first_fail.borrow_mut() = Some((v.clone(), viol.clone()));
                                stop.store(true, Ordering::Relaxed);
                            }
                            Err(TestCaseError::fail(viol.predicate))
                        }
                    }
                });
                let stats = stats_c.into_inner();
                let known_hits = known_c.into_inner();
                let first_fail = first_fail.into_inner();
                let failure = match res {
                    Ok(()) => None,
                    Err(TestError::Fail(_, minimal)) => {
                        // re-validate the shrunk input once; fall back to the unshrunk case
                        let mut sc2 = Stats::default();
                        sc2.frozen = true;
                        match call_guarded(ctx, f, &minimal, &mut sc2) {
                            Err(v) if ctx.is_known(&v).is_none() => Some((minimal, v)),
                            _ => first_fail.clone(),
                        }
                    }
                    Err(TestError::Abort(r)) => {
                        ctx.machinery(format!("proptest abort in {}: {}", part, r));
                        None
                    }
                };
                results.lock().unwrap().push((stats, failure, known_hits));
            });
        }
    });
    let mut stats = Stats::default();
    let mut failure = None;
    let mut known_hits = BTreeMap::new();
    for (s, fl, kh) in results.into_inner().unwrap() {
        stats.merge(s);
        if failure.is_none() {
            if let Some((t, v)) = fl {
                failure = Some((serde_json::to_value(&t).unwrap_or(Value::Null), v));
            }
        }
        for (k, n) in kh {
            *known_hits.entry(k).or_insert(0) += n;
        }
    }
    PartOutcome {
        name: part.to_string(),
        stats,
        failure,
        known_hits,
        exhaustive: false,
    }
}

// Exhaustive enumeration of a finite indexed space, split over the workers.
pub fn enumerate<T>(
    ctx: &RunCtx,
    part: &str,
    total: u64,
    gen: impl Fn(u64) -> T + Sync,
    f: impl Fn(&T, &mut Stats) -> Result<(), Viol> + Sync,
) -> PartOutcome
where
    T: Debug + Clone + Serialize + Send,
{
    let w = ctx.workers.max(1) as u64;
    let next = AtomicU64::new(0);
    let stop = AtomicBool::new(false);
    let results: Mutex<Vec<(Stats, Option<(u64, T, Viol)>, BTreeMap<String, u64>)>> =
        Mutex::new(vec![]);
    const CHUNK: u64 = 256;
    std::thread::scope(|sc| {
        for _ in 0..w {
            let (next, stop, results, gen, f) = (&next, &stop, &results, &gen, &f);
            sc.spawn(move || {
                let mut stats = Stats::default();
                let mut known_hits: BTreeMap<String, u64> = BTreeMap::new();
                let mut failure = None;
                'outer: loop {
                    let st = next.fetch_add(CHUNK, Ordering::Relaxed);
                    if st >= total || stop.load(Ordering::Relaxed) {
                        break;
                    }
                    for i in st..(st + CHUNK).min(total) {
                        let v = gen(i);
                        stats.evaluations += 1;
                        if let Err(viol) = call_guarded(ctx, f, &v, &mut stats) {
                            if let Some(k) = ctx.is_known(&viol) {
                                *known_hits.entry(k.id.clone()).or_insert(0) += 1;
                                continue;
                            }
                            failure = Some((i, v, viol));
                            stop.store(true, Ordering::Relaxed);
                            break 'outer;
                        }
                    }
                }
                results.lock().unwrap().push((stats, failure, known_hits));
            });
        }
    });
    let mut stats = Stats::default();
    let mut failure: Option<(u64, Value, Viol)> = None;
    let mut known_hits = BTreeMap::new();
    let mut complete = true;
    for (s, fl, kh) in results.into_inner().unwrap() {
        stats.merge(s);
        if let Some((i, t, v)) = fl {
            complete = false;
            // the smallest index is the canonical (most "shrunk") failure of an enumeration
            if failure.as_ref().map_or(true, |(j, _, _)| i < *j) {
                failure = Some((i, serde_json::to_value(&t).unwrap_or(Value::Null), v));
            }
        }
        for (k, n) in kh {
            *known_hits.entry(k).or_insert(0) += n;
        }
    }
    PartOutcome {
        name: part.to_string(),
        stats,
        failure: failure.map(|(_, t, v)| (t, v)),
        known_hits,
        exhaustive: complete,
    }
}

pub fn replay_input<T: DeserializeOwned>(
    input: &Value,
    f: impl Fn(&T, &mut Stats) -> Result<(), Viol>,
) -> Result<Result<(), Viol>, String> {
    let t: T = serde_json::from_value(input.clone()).map_err(|e| format!("bad replay input: {}", e))?;
    let mut st = Stats::default();
    Ok(f(&t, &mut st))
}

pub struct CheckReport {
    pub parts: Vec<PartOutcome>,
    pub rule: String,
    pub level: String,
    pub assumptions: Vec<String>,
    pub known_lines: Vec<String>,
    pub extra: BTreeMap<String, Value>,
}

pub fn write_replay(ctx: &RunCtx, part: &str, input: &Value, v: &Viol) -> String {
    let dir = format!("{}/replays", out_dir());
    let _ = std::fs::create_dir_all(&dir);
    let body = json!({
        "property": ctx.id,
        "part": part,
        "predicate": v.predicate,
        "signature": v.signature,
        "explanation": v.explanation,
        "transcript": v.transcript,
        "seed": ctx.seed,
        "tier": ctx.tier.name(),
        "input": input,
    });
    let txt = serde_json::to_string_pretty(&body).unwrap();
    let path = format!("{}/{}-{}-{:016x}.json", dir, ctx.id, part, fnv(&serde_json::to_string(input).unwrap()));
    let _ = std::fs::write(&path, txt);
    path
}

// Finalise a check: evidence file, VIOLATION / KNOWN-FINDING lines, exit code.
pub fn finish(ctx: &RunCtx, rep: CheckReport, started: Instant) -> i32 {
    let mut evaluations = 0u64;
    let mut nontrivial: HashSet<String> = HashSet::new();
    let mut samples: Vec<Value> = vec![];
    let mut parts_json = vec![];
    let mut violations = 0;
    let mut known_total: BTreeMap<String, u64> = BTreeMap::new();
    let mut all_exhaustive = !rep.parts.is_empty();
    for l in &rep.known_lines {
        println!("{}", l);
    }
    for p in &rep.parts {
        evaluations += p.stats.evaluations;
        for s in &p.stats.nontrivial {
            nontrivial.insert(format!("{}|{}", p.name, s));
        }
        for s in &p.stats.samples {
            if samples.len() < 10 {
                samples.push(json!({"part": p.name, "case": s}));
            }
        }
        all_exhaustive = all_exhaustive && p.exhaustive;
        parts_json.push(json!({
            "part": p.name,
            "evaluations": p.stats.evaluations,
            "distinct_nontrivial": p.stats.nontrivial.len(),
            "exhaustive": p.exhaustive,
            "counters": p.stats.counters,
            "known_finding_hits": p.known_hits,
            "violation": p.failure.as_ref().map(|(_, v)| json!({"predicate": v.predicate, "explanation": v.explanation})),
        }));
        for (k, n) in &p.known_hits {
            *known_total.entry(k.clone()).or_insert(0) += n;
        }
        if let Some((input, v)) = &p.failure {
            violations += 1;
            let path = write_replay(ctx, &p.name, input, v);
            println!("VIOLATION property={} replay={}", ctx.id, path);
            eprintln!(
                "[{}] part {} predicate {}: {}",
                ctx.id, p.name, v.predicate, v.explanation
            );
            for l in v.transcript.iter().take(60) {
                eprintln!("    {}", l);
            }
        }
    }
    for (k, n) in &known_total {
        if let Some(kf) = ctx.known.iter().find(|x| &x.id == k) {
            let line = format!("KNOWN-FINDING: property={} {} (hit {} times in search)", ctx.id, kf.what, n);
            if !rep.known_lines.iter().any(|l| l.contains(&kf.what)) {
                println!("{}", line);
            }
        }
    }
    let machinery = ctx.machinery_error.load(Ordering::SeqCst);
    if samples.is_empty() {
        samples.push(json!("no non-trivial sample recorded"));
    }
    let mut coverage = serde_json::Map::new();
    coverage.insert("evaluations".into(), json!(evaluations));
    coverage.insert("distinct_nontrivial".into(), json!(nontrivial.len()));
    coverage.insert("rule".into(), json!(rep.rule));
    coverage.insert("samples".into(), json!(samples));
    coverage.insert("exhaustive".into(), json!(all_exhaustive));
    coverage.insert("parts".into(), json!(parts_json));
    coverage.insert("workers".into(), json!(ctx.workers));
    coverage.insert("known_finding_hits".into(), json!(known_total));
    if machinery {
        coverage.insert(
            "machinery_errors".into(),
            json!(ctx.machinery_msgs.lock().unwrap().clone()),
        );
    }
    for (k, v) in rep.extra {
        coverage.insert(k, v);
    }
    let ev = json!({
        "property_id": ctx.id,
        "tier": ctx.tier.name(),
        "seed": ctx.seed,
        "level": rep.level,
        "coverage": Value::Object(coverage),
        "assumptions": rep.assumptions,
        "wall_s": started.elapsed().as_secs_f64(),
        "violations": violations,
    });
    let dir = format!("{}/evidence", out_dir());
    let _ = std::fs::create_dir_all(&dir);
    let path = format!("{}/{}.json", dir, ctx.id);
    if let Err(e) = std::fs::write(&path, serde_json::to_string_pretty(&ev).unwrap()) {
        eprintln!("cannot write evidence {}: {}", path, e);
        return 2;
    }
    eprintln!(
        "[{}] tier={} seed={} evaluations={} distinct_nontrivial={} violations={} wall={:.1}s",
        ctx.id,
        ctx.tier.name(),
        ctx.seed,
        evaluations,
        nontrivial.len(),
        violations,
        started.elapsed().as_secs_f64()
    );
    if violations > 0 {
        1
    } else if machinery {
        for m in ctx.machinery_msgs.lock().unwrap().iter().take(5) {
            eprintln!("MACHINERY: {}", m);
        }
        2
    } else {
        0
    }
}
