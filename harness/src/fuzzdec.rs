// Byte decoders shared by the libFuzzer targets (/verif/fuzz) and `sircverif replay` of their
// crash artifacts: bytes -> structured case -> the same check functions as the proptest parts.

use crate::checks::{c05, c13, c14};
use crate::runner::{Stats, Viol};

fn u16s(b: &[u8]) -> Vec<u16> {
    b.chunks(2).map(|c| u16::from_le_bytes([c[0], *c.get(1).unwrap_or(&0)])).collect()
}

pub fn run_bytes(target: &str, data: &[u8]) -> Result<(), Viol> {
    let mut st = Stats::default();
    st.frozen = true;
    match target {
        "parse" => {
            let Ok(s) = std::str::from_utf8(data) else { return Ok(()) };
            if s.len() > 600 || s.contains('\n') {
                return Ok(());
            }
            c13::check_line(&c13::LineCase { line: s.to_string() }, &mut st)
        }
        "glob" => {
            let Ok(s) = std::str::from_utf8(data) else { return Ok(()) };
            if s.len() > 200 {
                return Ok(());
            }
            let (m, t) = s.split_once('\n').unwrap_or((s, ""));
            c14::check_pair(&c14::GlobCase { mask: m.to_string(), text: t.to_string() }, &mut st)?;
            c14::check_norm(&c14::NormCase { mask: m.to_string() }, &mut st)
        }
        "session" => {
            if data.len() < 14 {
                return Ok(());
            }
            let scene = u16s(&data[..12]);
            let lines: Vec<Vec<u16>> = data[12..].chunks(20).take(30).map(u16s).collect();
            c05::check(&c05::FuzzCase { scene, lines }, &mut st)
        }
        _ => Ok(()),
    }
}
