// Byte decoders shared by the libFuzzer targets (/verif/fuzz) and `sircverif replay` of their
// crash artifacts: bytes -> structured case -> the same check functions as the proptest parts.

use crate::checks::{c05, c13, c14};
use crate::runner::{Stats, Viol};

fn u16s(b: &[u8]) -> Vec<u16> {
    b.chunks(2).map(|c| u16::from_le_bytes([c[0], *c.get(1).unwrap_or(&0)])).collect()
}

pub fn run_bytes(target: &str, data: &[u8]) -> Result<(), Viol> {
    let mut st = Stats::default();
    st.frozen = true;
    match target {
        "parse" => {
            let Ok(s) = std::str::from_utf8(data) else { return Ok(()) };
            if s.len() > 600 || s.contains('\n') {
                return Ok(());
            }
            c13::check_line(&c13::LineCase { line: s.to_string() }, &mut st)
        }
        "glob" => {
            let Ok(s) = std::str::from_utf8(data) else { return Ok(()) };
            if s.len() > 200 {
                return Ok(());
            }
            let (m, t) = s.split_once('\n').unwrap_or((s, ""));
            c14::check_pair(&c14::GlobCase { mask: m.to_string(), text: t.to_string() }, &mut st)?;
            c14::check_norm(&c14::NormCase { mask: m.to_string() }, &mut st)
        }
        "session" => {
            if data.len() < 14 {
                return Ok(());
            }
            let scene = u16s(&data[..12]);
            let lines: Vec<Vec<u16>> = data[12..].chunks(20).take(30).map(u16s).collect();
            c05::check(&c05::FuzzCase { scene, lines }, &mut st)
        }
        _ => Ok(()),
    }
}

// ---------------------------------------------------------------------------------------------
// Coverage-guided campaign (thorough tiers): runs `cargo +nightly fuzz run` on a target of
// /verif/fuzz with a fresh corpus (plus the committed seeds), a fixed -runs/-seed, and turns a
// crash artifact into an ordinary replay case of the owning property.

use crate::runner::{PartOutcome, RunCtx};
use serde_json::json;
use std::collections::BTreeMap;
use std::process::Command;

pub fn replay_bytes_case(input: &serde_json::Value) -> Result<Result<(), Viol>, String> {
    let target = input.get("target").and_then(|x| x.as_str()).ok_or("no target")?.to_string();
    let bytes: Vec<u8> = input
        .get("bytes")
        .and_then(|x| x.as_array())
        .ok_or("no bytes")?
        .iter()
        .map(|b| b.as_u64().unwrap_or(0) as u8)
        .collect();
    Ok(run_bytes(&target, &bytes))
}

pub fn libfuzzer_part(ctx: &RunCtx, target: &str, runs: u64, max_len: usize) -> PartOutcome {
    let name = format!("libfuzzer_{}", target);
    let mut out = PartOutcome { name: name.clone(), stats: Stats::default(), failure: None, known_hits: BTreeMap::new(), exhaustive: false };
    let base = format!("{}/.build/fuzz", crate::runner::VERIF_DIR);
    let corpus = format!("{}/corpus-{}-{}", base, target, ctx.seed);
    let arts = format!("{}/artifacts-{}-{}/", base, target, ctx.seed);
    let _ = std::fs::remove_dir_all(&corpus);
    let _ = std::fs::remove_dir_all(&arts);
    let _ = std::fs::create_dir_all(&corpus);
    let _ = std::fs::create_dir_all(&arts);
    let seeds = format!("{}/fuzz/seeds/{}", crate::runner::VERIF_DIR, target);
    let res = Command::new("cargo")
        .current_dir(crate::runner::VERIF_DIR)
        .env("RUSTFLAGS", "--cfg sirc_verif --cfg tokio_unstable")
        .env("CARGO_NET_OFFLINE", "true")
        .args(["+nightly", "fuzz", "run", "--fuzz-dir", &format!("{}/fuzz", crate::runner::VERIF_DIR), target, &corpus, &seeds, "--"])
        .arg(format!("-runs={}", runs))
        .arg(format!("-seed={}", ctx.seed.max(1)))
        .arg("-len_control=0")
        .arg(format!("-max_len={}", max_len))
        .arg(format!("-artifact_prefix={}", arts))
        .output();
    let Ok(o) = res else {
        out.stats.count("libfuzzer_unavailable");
        eprintln!("[{}] libFuzzer part {} skipped: cargo fuzz could not be started", ctx.id, target);
        return out;
    };
    let err = String::from_utf8_lossy(&o.stderr).to_string();
    let mut done_runs = 0u64;
    let mut corp = 0u64;
    let mut cov = 0u64;
    for l in err.lines() {
        if l.starts_with('#') {
            let toks: Vec<&str> = l.split_whitespace().collect();
            if let Some(n) = toks.get(0).and_then(|t| t.trim_start_matches('#').parse::<u64>().ok()) {
                done_runs = done_runs.max(n);
            }
            for (i, t) in toks.iter().enumerate() {
                if *t == "cov:" {
                    cov = toks.get(i + 1).and_then(|x| x.parse().ok()).unwrap_or(cov);
                }
                if *t == "corp:" {
                    corp = toks.get(i + 1).and_then(|x| x.split('/').next()).and_then(|x| x.parse().ok()).unwrap_or(corp);
                }
            }
        }
    }
    if done_runs == 0 && !err.contains("FUZZ-VIOLATION") && !o.status.success() {
        out.stats.count("libfuzzer_unavailable");
        eprintln!("[{}] libFuzzer part {} skipped: {}", ctx.id, target, err.lines().rev().take(3).collect::<Vec<_>>().join(" | "));
        return out;
    }
    out.stats.evaluations = done_runs;
    out.stats.add("coverage_edges", cov);
    out.stats.add("corpus_inputs", corp);
    // corpus entries are the inputs libFuzzer kept because they reached new coverage
    if let Ok(rd) = std::fs::read_dir(&corpus) {
        for (i, e) in rd.flatten().enumerate() {
            let fname = e.file_name().to_string_lossy().to_string();
            if let Ok(b) = std::fs::read(e.path()) {
                let sig = format!("corpus:{}", fname);
                let shown = String::from_utf8_lossy(&b[..b.len().min(80)]).to_string();
                out.stats.nontrivial(sig, || json!({"target": target, "corpus_input": shown}));
            }
            if i > 200_000 {
                break;
            }
        }
    }
    // crash artifact -> replay case
    if let Ok(rd) = std::fs::read_dir(&arts) {
        for e in rd.flatten() {
            if let Ok(b) = std::fs::read(e.path()) {
                if let Err(v) = run_bytes(target, &b) {
                    if ctx.is_known(&v).is_some() {
                        continue;
                    }
                    out.failure = Some((json!({"target": target, "bytes": b}), v));
                    break;
                } else {
                    // crashed in the fuzz build but not reproducible in-process: report as machinery note
                    ctx.machinery(format!("libFuzzer artifact {:?} does not reproduce in the harness", e.path()));
                }
            }
        }
    }
    out
}
