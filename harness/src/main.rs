// sircverif - property-based testing / fuzzing harness for matszpk/simple-irc-server.
// The repository's sources are compiled into this crate by path (see build.rs).
#![allow(dead_code, unused_imports, clippy::all)]

include!(concat!(env!("OUT_DIR"), "/repo_mods.rs"));

use command::*;
use config::*;
use state::*;
use utils::*;

mod checks;
mod refglob;
mod refparse;
mod runner;
mod sim;

use runner::*;
use std::collections::BTreeMap;
use std::sync::atomic::AtomicBool;
use std::sync::Mutex;
use std::time::Instant;

fn usage() -> ! {
    eprintln!("usage: sircverif check <C01..C20> [--tier quick|thorough] | replay <file> | selftest");
    std::process::exit(2);
}

fn make_ctx(id: &str, tier: Tier) -> RunCtx {
    let seed = std::env::var("VERIF_SEED")
        .ok()
        .and_then(|s| s.trim().parse::<u64>().ok())
        .unwrap_or(1);
    let workers = std::env::var("VERIF_WORKERS")
        .ok()
        .and_then(|s| s.parse::<usize>().ok())
        .unwrap_or_else(|| {
            std::thread::available_parallelism()
                .map(|n| n.get())
                .unwrap_or(4)
                .min(16)
        });
    RunCtx {
        id: id.to_string(),
        tier,
        seed,
        workers,
        known: load_known(),
        machinery_error: AtomicBool::new(false),
        machinery_msgs: Mutex::new(vec![]),
    }
}

fn selftest() -> i32 {
    let mut rc = 0;
    for r in [refparse::selftest(), refglob::selftest()] {
        if let Err(e) = r {
            eprintln!("SELFTEST FAILED: {}", e);
            rc = 2;
        }
    }
    if rc == 0 {
        eprintln!("selftest ok");
    }
    rc
}

fn run_check(id: &str, tier: Tier) -> i32 {
    let ctx = make_ctx(id, tier);
    let started = Instant::now();
    let known_lines = vec![];
    let (parts, rule, level, assumptions): (Vec<PartOutcome>, &str, &str, Vec<&str>) = match id {
        "C13" => (
            checks::c13::run_pure(&ctx),
            "lines from a grammar generator (verb in random case, middles that may contain ':', optional trailing incl. empty, blank runs), a byte-level generator and all strings of length <= 8/10 over {SP ':' 'a' ',' '#'}; non-trivial = reference parse has >= 2 parameters and one of: ':' inside a middle, blank runs, empty trailing, mixed-case verb; distinct by (verb, #params, those four flags)",
            "exploration",
            vec!["reference tokenizer (refparse.rs, self-tested) is the IRC grammar of the statement", "TAB/VT/FF/CR/LF inside a line and leading non-ASCII blanks are not judged"],
        ),
        "C14" => (
            checks::c14::run(&ctx),
            "mask/text pairs: masks derived from the text by wildcarding/lengthening edits, independent random pairs, and all pairs of strings of length <= 4/5 over {a b * ? e-acute}; non-trivial = mask has a wildcard and a literal and a one-edit neighbour of the text answers differently, or a multi-byte pair with a wildcard; distinct by (wildcard skeleton, text length bucket, answer, ascii/multibyte)",
            "exploration",
            vec!["reference glob (refglob.rs, textbook DP over Unicode scalar values, self-tested)"],
        ),
        _ => {
            eprintln!("unknown or unimplemented check {}", id);
            return 2;
        }
    };
    let rep = CheckReport {
        parts,
        rule: rule.to_string(),
        level: level.to_string(),
        assumptions: assumptions.into_iter().map(|s| s.to_string()).collect(),
        known_lines,
        extra: BTreeMap::new(),
    };
    finish(&ctx, rep, started)
}

fn run_replay(path: &str) -> i32 {
    let Ok(txt) = std::fs::read_to_string(path) else {
        eprintln!("cannot read {}", path);
        return 2;
    };
    let Ok(v) = serde_json::from_str::<serde_json::Value>(&txt) else {
        eprintln!("bad json in {}", path);
        return 2;
    };
    let prop = v.get("property").and_then(|x| x.as_str()).unwrap_or("");
    let part = v.get("part").and_then(|x| x.as_str()).unwrap_or("");
    let input = v.get("input").cloned().unwrap_or(serde_json::Value::Null);
    let r = match prop {
        "C13" => checks::c13::replay(part, &input),
        "C14" => checks::c14::replay(part, &input),
        _ => None,
    };
    match r {
        None => {
            eprintln!("no replay handler for {}/{}", prop, part);
            2
        }
        Some(Err(e)) => {
            eprintln!("{}", e);
            2
        }
        Some(Ok(Ok(()))) => {
            eprintln!("replay {}: property held", path);
            0
        }
        Some(Ok(Err(viol))) => {
            println!("VIOLATION property={} replay={}", prop, path);
            eprintln!("[{}] {}: {}", prop, viol.predicate, viol.explanation);
            for l in viol.transcript.iter().take(80) {
                eprintln!("    {}", l);
            }
            1
        }
    }
}

fn main() {
    sim::install_panic_hook();
    let args: Vec<String> = std::env::args().collect();
    if args.len() < 2 {
        usage();
    }
    let rc = match args[1].as_str() {
        "selftest" => selftest(),
        "check" => {
            if args.len() < 3 {
                usage();
            }
            let mut tier = match std::env::var("VERIF_TIER").as_deref() {
                Ok("thorough") => Tier::Thorough,
                _ => Tier::Quick,
            };
            let mut i = 3;
            while i < args.len() {
                if args[i] == "--tier" && i + 1 < args.len() {
                    tier = if args[i + 1] == "thorough" { Tier::Thorough } else { Tier::Quick };
                    i += 1;
                }
                i += 1;
            }
            run_check(&args[2], tier)
        }
        "replay" => {
            if args.len() < 3 {
                usage();
            }
            run_replay(&args[2])
        }
        _ => usage(),
    };
    std::process::exit(rc);
}
