// sircverif - property-based testing / fuzzing harness for matszpk/simple-irc-server.
// The repository's sources are compiled into this crate by path (see build.rs).
#![allow(dead_code, unused_imports, clippy::all)]

include!(concat!(env!("OUT_DIR"), "/repo_mods.rs"));

use command::*;
use config::*;
use state::*;
use utils::*;

mod cfgspec;
mod checks;
mod engine;
mod fuzzdec;
mod gen;
mod model;
mod norm;
mod refglob;
mod refparse;
mod runner;
mod scenario;
mod sim;
mod wire;

use runner::*;
use std::collections::BTreeMap;
use std::sync::atomic::AtomicBool;
use std::sync::Mutex;
use std::time::Instant;

fn usage() -> ! {
    eprintln!("usage: sircverif check <C01..C20> [--tier quick|thorough] | replay <file> | selftest");
    std::process::exit(2);
}

fn make_ctx(id: &str, tier: Tier) -> RunCtx {
    let seed = std::env::var("VERIF_SEED")
        .ok()
        .and_then(|s| s.trim().parse::<u64>().ok())
        .unwrap_or(1);
    let workers = std::env::var("VERIF_WORKERS")
        .ok()
        .and_then(|s| s.parse::<usize>().ok())
        .unwrap_or_else(|| {
            std::thread::available_parallelism()
                .map(|n| n.get())
                .unwrap_or(4)
                .min(16)
        });
    RunCtx {
        id: id.to_string(),
        tier,
        seed,
        workers,
        known: load_known(),
        machinery_error: AtomicBool::new(false),
        machinery_msgs: Mutex::new(vec![]),
    }
}

fn selftest() -> i32 {
    let mut rc = 0;
    for r in [refparse::selftest(), refglob::selftest()] {
        if let Err(e) = r {
            eprintln!("SELFTEST FAILED: {}", e);
            rc = 2;
        }
    }
    if rc == 0 {
        eprintln!("selftest ok");
    }
    rc
}

fn run_check(id: &str, tier: Tier) -> i32 {
    let ctx = make_ctx(id, tier);
    let started = Instant::now();
    let Some(def) = checks::all().into_iter().find(|d| d.id == id) else {
        eprintln!("unknown or unimplemented check {}", id);
        return 2;
    };
    // fixed entries of known_findings.json are informational; known ones are replayed first
    let mut known_lines = vec![];
    for k in ctx.known.iter().filter(|k| k.property == id && k.status == "known") {
        if let Some(rp) = &k.replay {
            let path = format!("{}/{}", VERIF_DIR, rp);
            if let Ok(txt) = std::fs::read_to_string(&path) {
                if let Ok(v) = serde_json::from_str::<serde_json::Value>(&txt) {
                    let part = v.get("part").and_then(|x| x.as_str()).unwrap_or("");
                    let input = v.get("input").cloned().unwrap_or(serde_json::Value::Null);
                    if let Some(Ok(Err(_))) = (def.replay)(part, &input) {
                        known_lines.push(format!("KNOWN-FINDING: property={} {}", id, k.what));
                    }
                }
            }
        }
    }
    let parts = (def.run)(&ctx);
    let rep = CheckReport {
        parts,
        rule: def.rule.to_string(),
        level: def.level.to_string(),
        assumptions: def.assumptions.iter().map(|s| s.to_string()).collect(),
        known_lines,
        extra: BTreeMap::new(),
    };
    finish(&ctx, rep, started)
}

fn run_replay(path: &str) -> i32 {
    let Ok(txt) = std::fs::read_to_string(path) else {
        eprintln!("cannot read {}", path);
        return 2;
    };
    let Ok(v) = serde_json::from_str::<serde_json::Value>(&txt) else {
        eprintln!("bad json in {}", path);
        return 2;
    };
    let prop = v.get("property").and_then(|x| x.as_str()).unwrap_or("");
    let part = v.get("part").and_then(|x| x.as_str()).unwrap_or("");
    let input = v.get("input").cloned().unwrap_or(serde_json::Value::Null);
    let r = checks::all()
        .into_iter()
        .find(|d| d.id == prop)
        .and_then(|d| (d.replay)(part, &input));
    match r {
        None => {
            eprintln!("no replay handler for {}/{}", prop, part);
            2
        }
        Some(Err(e)) => {
            eprintln!("{}", e);
            2
        }
        Some(Ok(Ok(()))) => {
            eprintln!("replay {}: property held", path);
            0
        }
        Some(Ok(Err(viol))) => {
            println!("VIOLATION property={} replay={}", prop, path);
            eprintln!("[{}] {}: {}", prop, viol.predicate, viol.explanation);
            for l in viol.transcript.iter().take(80) {
                eprintln!("    {}", l);
            }
            1
        }
    }
}

fn main() {
    sim::install_panic_hook();
    let args: Vec<String> = std::env::args().collect();
    if args.len() < 2 {
        usage();
    }
    let rc = match args[1].as_str() {
        "selftest" => selftest(),
        "check" => {
            if args.len() < 3 {
                usage();
            }
            let mut tier = match std::env::var("VERIF_TIER").as_deref() {
                Ok("thorough") => Tier::Thorough,
                _ => Tier::Quick,
            };
            let mut i = 3;
            while i < args.len() {
                if args[i] == "--tier" && i + 1 < args.len() {
                    tier = if args[i + 1] == "thorough" { Tier::Thorough } else { Tier::Quick };
                    i += 1;
                }
                i += 1;
            }
            run_check(&args[2], tier)
        }
        "debug-ping" => {
            // sircverif debug-ping <ping_timeout> <pong_timeout> <seconds>: arrival times at a silent client
            let p: u64 = args[2].parse().unwrap();
            let q: u64 = args[3].parse().unwrap();
            let secs: u64 = args[4].parse().unwrap();
            let mut cfg = cfgspec::CfgSpec::default();
            cfg.ping_timeout = p;
            cfg.pong_timeout = q;
            let mut w = sim::World::new(cfg.to_main_config(), 1);
            let c = w.connect();
            w.send_line(c, "NICK k0");
            w.send_line(c, "USER u 0 * :x");
            w.settle();
            w.drain(c);
            let mut t = 0;
            while t < secs * 1000 {
                w.advance(std::time::Duration::from_millis(50));
                t += 50;
                for l in w.drain(c) {
                    println!("t={} {}", w.now_ms(), l);
                }
                if w.conns[c].eof {
                    println!("t={} EOF", w.now_ms());
                    break;
                }
            }
            0
        }
        "replay" => {
            if args.len() < 3 {
                usage();
            }
            run_replay(&args[2])
        }
        _ => usage(),
    };
    std::process::exit(rc);
}
