// Reference glob matcher and source-mask normaliser, written from the statement of C14:
// the whole text must match; '*' = any possibly empty run of characters, '?' = exactly one
// character, every other character stands for itself, case-sensitively.  Characters are
// Unicode scalar values.

pub fn glob(mask: &str, text: &str) -> bool {
    let m: Vec<char> = mask.chars().collect();
    let t: Vec<char> = text.chars().collect();
    // dp[j] = mask[..i] matches text[..j]
    let mut dp = vec![false; t.len() + 1];
    dp[0] = true;
    for &mc in &m {
        let mut nd = vec![false; t.len() + 1];
        if mc == '*' {
            let mut any = false;
            for j in 0..=t.len() {
                any = any || dp[j];
                nd[j] = any;
            }
        } else {
            for j in 1..=t.len() {
                nd[j] = dp[j - 1] && (mc == '?' || mc == t[j - 1]);
            }
        }
        dp = nd;
    }
    dp[t.len()]
}

// nick -> nick!*@*, nick@host -> nick!*@host, nick!user -> nick!user@*
pub fn normalise(mask: &str) -> String {
    match mask.find('!') {
        Some(p) => {
            if mask[p + 1..].contains('@') {
                mask.to_string()
            } else {
                format!("{}@*", mask)
            }
        }
        None => match mask.find('@') {
            Some(p) => format!("{}!*{}", &mask[..p], &mask[p..]),
            None => format!("{}!*@*", mask),
        },
    }
}

pub fn selftest() -> Result<(), String> {
    let cases: &[(&str, &str, bool)] = &[
        ("", "", true),
        ("", "a", false),
        ("*", "", true),
        ("*", "abc", true),
        ("?", "", false),
        ("?", "a", true),
        ("?", "é", true),
        ("??", "é", false),
        ("*?", "", false),
        ("*abc", "ab", false),
        ("*abc", "xxabc", true),
        ("a*b*c", "aXbYc", true),
        ("a*b*c", "abcb", false),
        ("a*bc", "abcbc", true),
        ("*!*@*", "n!u@h", true),
        ("n!*@10.0.?.1", "n!~u@10.0.0.1", true),
        ("N!*@*", "n!u@h", false),
        ("a**b", "ab", true),
        ("*a*", "bab", true),
        ("*a", "ab", false),
        ("a?c", "abc", true),
        ("a?c", "ac", false),
    ];
    for (m, t, e) in cases {
        if glob(m, t) != *e {
            return Err(format!("refglob selftest: glob({:?},{:?}) != {}", m, t, e));
        }
    }
    for (a, b) in [
        ("nick", "nick!*@*"),
        ("nick@host", "nick!*@host"),
        ("nick!user", "nick!user@*"),
        ("nick!user@host", "nick!user@host"),
        ("*", "*!*@*"),
        ("", "!*@*"),
    ] {
        if normalise(a) != b {
            return Err(format!("refglob selftest: normalise({:?}) = {:?}", a, normalise(a)));
        }
    }
    Ok(())
}
