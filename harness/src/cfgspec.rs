// Serializable description of a server configuration (passwords in plain text; hashed with the
// repository's own argon2_hash_password when the MainConfig is built).

use serde_derive::{Deserialize, Serialize};
use std::collections::{HashMap, HashSet};
use std::sync::Mutex;

use crate::{ChannelConfig, ChannelModes, MainConfig, OperatorConfig, UserConfig, UserModes};

#[derive(Clone, Debug, Default, Serialize, Deserialize, PartialEq)]
pub struct UserSpec {
    pub name: String,
    pub nick: String,
    pub password: Option<String>,
    pub mask: Option<String>,
}

#[derive(Clone, Debug, Default, Serialize, Deserialize, PartialEq)]
pub struct OperSpec {
    pub name: String,
    pub password: String,
    pub mask: Option<String>,
}

#[derive(Clone, Debug, Default, Serialize, Deserialize, PartialEq)]
pub struct ChanSpec {
    pub name: String,
    pub topic: Option<String>,
    pub flags: String, // subset of "imstn"
    pub key: Option<String>,
    pub limit: Option<usize>,
    pub ban: Vec<String>,
    pub except: Vec<String>,
    pub invex: Vec<String>,
    pub founders: Vec<String>,
    pub protecteds: Vec<String>,
    pub operators: Vec<String>,
    pub half_operators: Vec<String>,
    pub voices: Vec<String>,
}

#[derive(Clone, Debug, Serialize, Deserialize, PartialEq)]
pub struct CfgSpec {
    pub password: Option<String>,
    pub users: Vec<UserSpec>,
    pub opers: Vec<OperSpec>,
    pub channels: Vec<ChanSpec>,
    pub max_joins: Option<usize>,
    pub max_connections: Option<usize>,
    pub ping_timeout: u64,
    pub pong_timeout: u64,
    pub default_modes: String, // subset of "ioOrw"
    pub motd: String,
}

impl Default for CfgSpec {
    fn default() -> Self {
        CfgSpec {
            password: None,
            users: vec![],
            opers: vec![],
            channels: vec![],
            max_joins: None,
            max_connections: None,
            ping_timeout: 1_000_000,
            pong_timeout: 1_000_000,
            default_modes: String::new(),
            motd: "Hello, world!".to_string(),
        }
    }
}

pub const SERVER_NAME: &str = "irc.irc";

lazy_static::lazy_static! {
    static ref HASHES: Mutex<HashMap<String, String>> = Mutex::new(HashMap::new());
}

pub fn hash_of(p: &str) -> String {
    if let Some(h) = HASHES.lock().unwrap().get(p) {
        return h.clone();
    }
    let h = crate::argon2_hash_password(p);
    HASHES.lock().unwrap().insert(p.to_string(), h.clone());
    h
}

fn set(v: &[String]) -> Option<HashSet<String>> {
    if v.is_empty() {
        None
    } else {
        Some(v.iter().cloned().collect())
    }
}

impl CfgSpec {
    pub fn to_main_config(&self) -> MainConfig {
        let mut c = MainConfig::default();
        c.name = SERVER_NAME.to_string();
        c.motd = self.motd.clone();
        c.password = self.password.as_ref().map(|p| hash_of(p));
        c.max_joins = self.max_joins;
        c.max_connections = self.max_connections;
        c.ping_timeout = self.ping_timeout;
        c.pong_timeout = self.pong_timeout;
        c.default_user_modes = UserModes {
            invisible: self.default_modes.contains('i'),
            oper: self.default_modes.contains('o'),
            local_oper: self.default_modes.contains('O'),
            registered: self.default_modes.contains('r'),
            wallops: self.default_modes.contains('w'),
        };
        if !self.users.is_empty() {
            c.users = Some(
                self.users
                    .iter()
                    .map(|u| UserConfig {
                        name: u.name.clone(),
                        nick: u.nick.clone(),
                        password: u.password.as_ref().map(|p| hash_of(p)),
                        mask: u.mask.clone(),
                    })
                    .collect(),
            );
        }
        if !self.opers.is_empty() {
            c.operators = Some(
                self.opers
                    .iter()
                    .map(|o| OperatorConfig {
                        name: o.name.clone(),
                        password: hash_of(&o.password),
                        mask: o.mask.clone(),
                    })
                    .collect(),
            );
        }
        if !self.channels.is_empty() {
            c.channels = Some(
                self.channels
                    .iter()
                    .map(|ch| ChannelConfig {
                        name: ch.name.clone(),
                        topic: ch.topic.clone(),
                        modes: ChannelModes {
                            ban: set(&ch.ban),
                            exception: set(&ch.except),
                            client_limit: ch.limit,
                            invite_exception: set(&ch.invex),
                            key: ch.key.clone(),
                            operators: set(&ch.operators),
                            half_operators: set(&ch.half_operators),
                            voices: set(&ch.voices),
                            founders: set(&ch.founders),
                            protecteds: set(&ch.protecteds),
                            invite_only: ch.flags.contains('i'),
                            moderated: ch.flags.contains('m'),
                            secret: ch.flags.contains('s'),
                            protected_topic: ch.flags.contains('t'),
                            no_external_messages: ch.flags.contains('n'),
                        },
                    })
                    .collect(),
            );
        }
        c
    }
}
