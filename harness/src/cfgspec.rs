// Serializable description of a server configuration (passwords in plain text; hashed with the
// repository's own argon2_hash_password when the MainConfig is built).

use serde_derive::{Deserialize, Serialize};
use std::collections::{HashMap, HashSet};
use std::sync::Mutex;

use crate::{ChannelConfig, ChannelModes, MainConfig, OperatorConfig, UserConfig, UserModes};

#[derive(Clone, Debug, Default, Serialize, Deserialize, PartialEq)]
pub struct UserSpec {
    pub name: String,
    pub nick: String,
    pub password: Option<String>,
    pub mask: Option<String>,
}

#[derive(Clone, Debug, Default, Serialize, Deserialize, PartialEq)]
pub struct OperSpec {
    pub name: String,
    pub password: String,
    pub mask: Option<String>,
}

#[derive(Clone, Debug, Default, Serialize, Deserialize, PartialEq)]
pub struct ChanSpec {
    pub name: String,
    pub topic: Option<String>,
    pub flags: String, // subset of "imstn"
    pub key: Option<String>,
    pub limit: Option<usize>,
    pub ban: Vec<String>,
    pub except: Vec<String>,
    pub invex: Vec<String>,
    pub founders: Vec<String>,
    pub protecteds: Vec<String>,
    pub operators: Vec<String>,
    pub half_operators: Vec<String>,
    pub voices: Vec<String>,
}

#[derive(Clone, Debug, Serialize, Deserialize, PartialEq)]
pub struct CfgSpec {
    pub password: Option<String>,
    pub users: Vec<UserSpec>,
    pub opers: Vec<OperSpec>,
    pub channels: Vec<ChanSpec>,
    pub max_joins: Option<usize>,
    pub max_connections: Option<usize>,
    pub ping_timeout: u64,
    pub pong_timeout: u64,
    pub default_modes: String, // subset of "ioOrw"
    pub motd: String,
}

impl Default for CfgSpec {
    fn default() -> Self {
        CfgSpec {
            password: None,
            users: vec![],
            opers: vec![],
            channels: vec![],
            max_joins: None,
            max_connections: None,
            ping_timeout: 1_000_000,
            pong_timeout: 1_000_000,
            default_modes: String::new(),
            motd: "Hello, world!".to_string(),
        }
    }
}

pub const SERVER_NAME: &str = "irc.irc";

lazy_static::lazy_static! {
    static ref HASHES: Mutex<HashMap<String, String>> = Mutex::new(HashMap::new());
}

pub fn hash_of(p: &str) -> String {
    if let Some(h) = HASHES.lock().unwrap().get(p) {
        return h.clone();
    }
    let h = crate::argon2_hash_password(p);
    HASHES.lock().unwrap().insert(p.to_string(), h.clone());
    h
}

fn set(v: &[String]) -> Option<HashSet<String>> {
    if v.is_empty() {
        None
    } else {
        Some(v.iter().cloned().collect())
    }
}

thread_local! {
    // when set, `to_main_config` goes the way an administrator goes: the specification is written
    // as TOML text and loaded by the repository's `MainConfig::new` (used by C20's toml_sessions)
    pub static VIA_TOML: std::cell::Cell<bool> = std::cell::Cell::new(false);
}

static TOML_SEQ: std::sync::atomic::AtomicU64 = std::sync::atomic::AtomicU64::new(0);

fn q(s: &str) -> String {
    // TOML basic string
    let mut o = String::from("\"");
    for ch in s.chars() {
        match ch {
            '"' => o.push_str("\\\""),
            '\\' => o.push_str("\\\\"),
            '\n' => o.push_str("\\n"),
            '\t' => o.push_str("\\t"),
            c if (c as u32) < 0x20 || c as u32 == 0x7f => o.push_str(&format!("\\u{:04X}", c as u32)),
            c => o.push(c),
        }
    }
    o.push('"');
    o
}

fn qlist(v: &[String]) -> String {
    format!("[ {} ]", v.iter().map(|x| q(x)).collect::<Vec<_>>().join(", "))
}

pub fn load_toml(toml: &str) -> Result<MainConfig, String> {
    let dir = format!("{}/.build/tmp", crate::runner::VERIF_DIR);
    let _ = std::fs::create_dir_all(&dir);
    let path = format!("{}/spec-{}-{}.toml", dir, std::process::id(), TOML_SEQ.fetch_add(1, std::sync::atomic::Ordering::Relaxed));
    std::fs::write(&path, toml).map_err(|e| e.to_string())?;
    let args = vec!["simple-irc-server".to_string(), "-c".to_string(), path.clone()];
    use clap::Parser;
    let r = match crate::Cli::try_parse_from(args.iter()) {
        Ok(cli) => MainConfig::new(cli).map_err(|e| e.to_string()),
        Err(e) => Err(format!("cli: {}", e.kind())),
    };
    let _ = std::fs::remove_file(&path);
    r
}

impl CfgSpec {
    // the same configuration as TOML text, every documented key spelled out
    pub fn to_toml(&self) -> String {
        let d = MainConfig::default();
        let mut t = String::new();
        t += &format!("name = {}\n", q(SERVER_NAME));
        t += &format!("admin_info = {}\n", q(&d.admin_info));
        t += &format!("info = {}\n", q(&d.info));
        t += &format!("listen = {}\n", q(&d.listen.to_string()));
        t += &format!("port = {}\n", d.port);
        if let Some(p) = &self.password {
            t += &format!("password = {}\n", q(&hash_of(p)));
        }
        t += &format!("network = {}\n", q(&d.network));
        if let Some(m) = self.max_connections {
            t += &format!("max_connections = {}\n", m);
        }
        if let Some(m) = self.max_joins {
            t += &format!("max_joins = {}\n", m);
        }
        t += &format!("ping_timeout = {}\n", self.ping_timeout);
        t += &format!("pong_timeout = {}\n", self.pong_timeout);
        t += &format!("motd = {}\n", q(&self.motd));
        t += "dns_lookup = false\n";
        t += "log_level = \"INFO\"\n";
        t += "\n[default_user_modes]\n";
        for (k, l) in [("invisible", 'i'), ("oper", 'o'), ("local_oper", 'O'), ("registered", 'r'), ("wallops", 'w')] {
            t += &format!("{} = {}\n", k, self.default_modes.contains(l));
        }
        for o in &self.opers {
            t += "\n[[operators]]\n";
            t += &format!("name = {}\n", q(&o.name));
            t += &format!("password = {}\n", q(&hash_of(&o.password)));
            if let Some(m) = &o.mask {
                t += &format!("mask = {}\n", q(m));
            }
        }
        for u in &self.users {
            t += "\n[[users]]\n";
            t += &format!("name = {}\n", q(&u.name));
            t += &format!("nick = {}\n", q(&u.nick));
            if let Some(p) = &u.password {
                t += &format!("password = {}\n", q(&hash_of(p)));
            }
            if let Some(m) = &u.mask {
                t += &format!("mask = {}\n", q(m));
            }
        }
        for ch in &self.channels {
            t += "\n[[channels]]\n";
            t += &format!("name = {}\n", q(&ch.name));
            if let Some(tp) = &ch.topic {
                t += &format!("topic = {}\n", q(tp));
            }
            t += "\n[channels.modes]\n";
            for (k, v) in [
                ("ban", &ch.ban),
                ("exception", &ch.except),
                ("invite_exception", &ch.invex),
                ("founders", &ch.founders),
                ("protecteds", &ch.protecteds),
                ("operators", &ch.operators),
                ("half_operators", &ch.half_operators),
                ("voices", &ch.voices),
            ] {
                if !v.is_empty() {
                    t += &format!("{} = {}\n", k, qlist(v));
                }
            }
            if let Some(k) = &ch.key {
                t += &format!("key = {}\n", q(k));
            }
            if let Some(l) = ch.limit {
                t += &format!("client_limit = {}\n", l);
            }
            for (k, l) in [("moderated", 'm'), ("invite_only", 'i'), ("secret", 's'), ("protected_topic", 't'), ("no_external_messages", 'n')] {
                t += &format!("{} = {}\n", k, ch.flags.contains(l));
            }
        }
        t
    }

    pub fn to_main_config(&self) -> MainConfig {
        if VIA_TOML.with(|v| v.get()) {
            match load_toml(&self.to_toml()) {
                Ok(c) => return c,
                Err(e) => panic!("harness: the TOML rendering of a valid specification was rejected: {}", e),
            }
        }
        self.to_main_config_direct()
    }

    pub fn to_main_config_direct(&self) -> MainConfig {
        let mut c = MainConfig::default();
        c.name = SERVER_NAME.to_string();
        c.motd = self.motd.clone();
        c.password = self.password.as_ref().map(|p| hash_of(p));
        c.max_joins = self.max_joins;
        c.max_connections = self.max_connections;
        c.ping_timeout = self.ping_timeout;
        c.pong_timeout = self.pong_timeout;
        c.default_user_modes = UserModes {
            invisible: self.default_modes.contains('i'),
            oper: self.default_modes.contains('o'),
            local_oper: self.default_modes.contains('O'),
            registered: self.default_modes.contains('r'),
            wallops: self.default_modes.contains('w'),
        };
        if !self.users.is_empty() {
            c.users = Some(
                self.users
                    .iter()
                    .map(|u| UserConfig {
                        name: u.name.clone(),
                        nick: u.nick.clone(),
                        password: u.password.as_ref().map(|p| hash_of(p)),
                        mask: u.mask.clone(),
                    })
                    .collect(),
            );
        }
        if !self.opers.is_empty() {
            c.operators = Some(
                self.opers
                    .iter()
                    .map(|o| OperatorConfig {
                        name: o.name.clone(),
                        password: hash_of(&o.password),
                        mask: o.mask.clone(),
                    })
                    .collect(),
            );
        }
        if !self.channels.is_empty() {
            c.channels = Some(
                self.channels
                    .iter()
                    .map(|ch| ChannelConfig {
                        name: ch.name.clone(),
                        topic: ch.topic.clone(),
                        modes: ChannelModes {
                            ban: set(&ch.ban),
                            exception: set(&ch.except),
                            client_limit: ch.limit,
                            invite_exception: set(&ch.invex),
                            key: ch.key.clone(),
                            operators: set(&ch.operators),
                            half_operators: set(&ch.half_operators),
                            voices: set(&ch.voices),
                            founders: set(&ch.founders),
                            protecteds: set(&ch.protecteds),
                            invite_only: ch.flags.contains('i'),
                            moderated: ch.flags.contains('m'),
                            secret: ch.flags.contains('s'),
                            protected_topic: ch.flags.contains('t'),
                            no_external_messages: ch.flags.contains('n'),
                        },
                    })
                    .collect(),
            );
        }
        c
    }
}
