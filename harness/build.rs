// Emits the `#[path]` module lines that pull the repository's own sources into this crate.
use std::env;
use std::fs;
use std::path::Path;

fn main() {
    let src = env::var("SIRC_SRC").unwrap_or_else(|_| "/repo/src".to_string());
    println!("cargo:rerun-if-env-changed=SIRC_SRC");
    println!("cargo:rerun-if-changed={}", src);
    for f in ["command.rs", "config.rs", "help.rs", "reply.rs", "utils.rs", "state/mod.rs",
              "state/structs.rs", "state/channel_cmds.rs", "state/conn_cmds.rs",
              "state/rest_cmds.rs", "state/srv_query_cmds.rs"] {
        println!("cargo:rerun-if-changed={}/{}", src, f);
    }
    let out = env::var("OUT_DIR").unwrap();
    let mut s = String::new();
    for (m, f) in [("command", "command.rs"), ("config", "config.rs"), ("help", "help.rs"),
                   ("reply", "reply.rs"), ("state", "state/mod.rs"), ("utils", "utils.rs")] {
        s += &format!("#[allow(dead_code, unused_imports, unused_variables, clippy::all)]\n#[path = \"{}/{}\"]\nmod {};\n", src, f, m);
    }
    fs::write(Path::new(&out).join("repo_mods.rs"), s).unwrap();
}
