#!/bin/bash
# confirm_mutant.sh <out-dir> <i> <ID>   - confirms, in a scratch worktree, that mutant i
#   (1) compiles, (2) keeps the pinned baseline green, (3) its demo fails with it and passes without.
# Prints one summary line; exit 0 iff all confirmed.
set -u
OUT="$1"; I="$2"; ID="$3"; TP="${4:-m}"   # TP = test-name infix: demo_<ID>_<TP><I>
WT=/tmp/confirm-wt-$ID-$I
export CARGO_NET_OFFLINE=true RUST_BACKTRACE=0
git -C /repo worktree remove --force "$WT" >/dev/null 2>&1
git -C /repo worktree add -q "$WT" HEAD || { echo "$ID m$I: worktree failed"; exit 2; }
cd "$WT"
run() { unshare -rn sh -c "ip link set lo up; $*"; }
res=""
git apply "$OUT/m$I.demo.diff" || { echo "$ID m$I: demo diff does not apply"; git -C /repo worktree remove --force "$WT"; exit 1; }
# demo without the mutant must pass
if run "cargo test --offline demo_${ID}_${TP}$I 2>&1" | grep -q "test result: ok. 1 passed"; then res="$res demo-clean=pass"; else res="$res demo-clean=FAIL"; fi
git apply "$OUT/m$I.patch.diff" || { echo "$ID m$I: patch does not apply"; git -C /repo worktree remove --force "$WT"; exit 1; }
if run "cargo test --offline demo_${ID}_${TP}$I 2>&1" | grep -q "test result: FAILED"; then res="$res demo-mutant=fail(ok)"; else res="$res demo-mutant=NOT-FAILING"; fi
# pinned baseline (38 stable tests) with the mutant but without the demo
git checkout -q -- . ; git apply "$OUT/m$I.patch.diff"
b=$(cargo test --offline --no-fail-fast -- command::test config::test reply::test state::structs::test utils::test 2>&1 | grep "test result")
case "$b" in *"38 passed; 0 failed"*) res="$res baseline38=pass";; *) res="$res baseline38=FAIL($b)";; esac
f1=$(run "cargo test --offline --no-fail-fast 2>&1" | grep -E "^test [A-Za-z0-9_:]+ \.\.\. FAILED" | grep -v names_secret | awk '{print $2}' | sort)
f2=$(run "cargo test --offline --no-fail-fast 2>&1" | grep -E "^test [A-Za-z0-9_:]+ \.\.\. FAILED" | grep -v names_secret | awk '{print $2}' | sort)
full=$(comm -12 <(echo "$f1") <(echo "$f2") | tr '\n' ' ')
if [ -n "$(echo $full)" ]; then res="$res suite=BROKEN[$full]"; else res="$res suite=pass(flaky-once:[$(echo $f1 $f2 | tr '\n' ' ')])"; fi
cd /; git -C /repo worktree remove --force "$WT"
echo "$ID m$I:$res"
case "$res" in *=FAIL*|*NOT-FAILING*|*BROKEN*) exit 1;; *) exit 0;; esac
