#!/bin/bash
# run_mutant.sh <patch.diff> <check ids...>  - applies the patch to /repo, runs the quick checks,
# reverts.  Prints "<ID>: DETECTED|missed (rc)" per check.
set -u
P="$1"; shift
cd /repo || exit 2
git diff --quiet || { echo "/repo is dirty, refusing"; exit 2; }
git apply "$P" || { echo "patch does not apply"; exit 2; }
for id in "$@"; do
  out=$(cd /verif && ./check "$id" --tier quick 2>&1); rc=$?
  v=$(echo "$out" | grep -c "^VIOLATION")
  pred=$(echo "$out" | grep -m1 "predicate" | sed 's/.*predicate //' | cut -c1-160)
  if [ $rc -eq 1 ] && [ "$v" -gt 0 ]; then echo "$id: DETECTED  $pred"; elif [ $rc -eq 0 ]; then echo "$id: missed"; else echo "$id: rc=$rc (machinery?) $(echo "$out" | tail -2 | tr '\n' ' ' | cut -c1-200)"; fi
done
git -C /repo checkout -- .
