#!/bin/bash
# recheck_seeded.sh [ids...] - every packaged seeded change against the quick tier of the check(s)
# recorded as detecting it (meta.json detected_by_quick_tier_of); prints REGRESSION for a miss.
cd /verif
ids="${@:-$(ls seeded | grep -E '^C[0-9]+-')}"
for id in $ids; do
  det=$(python3 -c "import json;print(' '.join(json.load(open('/verif/seeded/$id/meta.json'))['detected_by_quick_tier_of'][:1]))")
  [ -z "$det" ] && { echo "$id skipped (recorded as not detected)"; continue; }
  out=$(XS_TARGET=/tmp/xr-target tools/try_mutant_scratch.sh /verif/seeded/$id/patch.diff $det 2>&1 | cut -c1-160)
  case "$out" in *DETECTED*) echo "$id ok: $out";; *) echo "$id REGRESSION: $out";; esac
done
