#!/usr/bin/env python3
# seeded_table.py - regenerates the table of section 15.5 of DESIGN.md (between the markers
# <!-- seeded-table:begin --> and <!-- seeded-table:end -->) from /verif/seeded/*/meta.json.
import json, glob, re, os
rows = []
def key(d):
    b = os.path.basename(d)
    m = re.match(r"(C\d+)-(r(\d+))?m(\d+)", b)
    return (int(m.group(3) or 1), m.group(1), int(m.group(4)))
for d in sorted(glob.glob('/verif/seeded/C*-*m*'), key=key):
    m = json.load(open(d + '/meta.json'))
    title = open(d + '/notes.md').read().strip().split('\n')[0].lstrip('# ').strip()
    title = re.sub(r"^C\d+\s*(/|,)?\s*(round \d+,?\s*|r\d+\s*)?(mutant\s*\d+|r?\d*m\d+)\s*[-:–]\s*", "", title, flags=re.I)
    title = title.replace('|', '/')
    files = ', '.join(f.replace('src/', '') for f in m['files_changed'])
    det = ', '.join(m['detected_by_quick_tier_of']) or '-'
    h = m.get('history', '')
    when = 'as first built' if (not h or h.startswith('detected by the property')) else 'after strengthening'
    if not m['detected_by_quick_tier_of']:
        when = 'NOT detected (see 15.5)'
    elif m.get('not_detected_by'):
        when += ' (not by ' + ', '.join(m['not_detected_by']) + ')'
    rows.append(f"| {m['id']} | {title} | {files} | {det} | {when} |")
table = "| change | what it does | file | caught by quick tier of | when |\n|--------|--------------|------|-------------------------|------|\n" + '\n'.join(rows)
p = '/verif/DESIGN.md'
s = open(p).read()
s2 = re.sub(r"<!-- seeded-table:begin -->.*?<!-- seeded-table:end -->", "<!-- seeded-table:begin -->\n" + table + "\n<!-- seeded-table:end -->", s, flags=re.S)
open(p, 'w').write(s2)
n = len(rows); strengthened = sum('after' in r.rsplit('|', 2)[1] for r in rows)
print(n, 'rows;', strengthened, 'after strengthening')
