#!/bin/bash
# silence.sh <tier> <seeds...> - every check on the unchanged tree, from fresh processes
tier="$1"; shift
cd /verif
for seed in "$@"; do
  for c in C01 C02 C03 C04 C05 C06 C07 C08 C09 C10 C11 C12 C13 C14 C15 C16 C17 C18 C19 C20; do
    out=$(VERIF_SEED=$seed ./check $c --tier $tier 2>&1); rc=$?
    echo "tier=$tier seed=$seed $c rc=$rc $(echo "$out" | grep -E 'tier=' | sed 's/.*evaluations/evaluations/') $(echo "$out" | grep -c '^VIOLATION') violation-lines $(echo "$out" | grep -c '^KNOWN-FINDING') known-finding-lines"
  done
done
