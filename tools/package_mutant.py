#!/usr/bin/env python3
# package_mutant.py <out-dir> <i> <ID> <detected-by comma list> [missed-by comma list]
import sys, os, json, shutil, re
out, i, pid = sys.argv[1], sys.argv[2], sys.argv[3]
detected = [x for x in sys.argv[4].split(',') if x] if len(sys.argv) > 4 else []
missed = [x for x in sys.argv[5].split(',') if x] if len(sys.argv) > 5 else []
wave = sys.argv[6] if len(sys.argv) > 6 else ""
mid = f"{pid}-{wave}m{i}"
d = f"/verif/seeded/{mid}"
os.makedirs(d, exist_ok=True)
shutil.copy(f"{out}/m{i}.patch.diff", f"{d}/patch.diff")
shutil.copy(f"{out}/m{i}.demo.diff", f"{d}/demo.diff")
notes = open(f"{out}/m{i}.md").read() if os.path.exists(f"{out}/m{i}.md") else ""
open(f"{d}/notes.md", "w").write(notes)
files = sorted(set(re.findall(r"^\+\+\+ b/(\S+)", open(f"{d}/patch.diff").read(), re.M)))
meta = {
    "id": mid,
    "breaks_property": pid,
    "files_changed": files,
    "origin": "independent sub-agent given only the property text and a scratch worktree of /repo (nothing from /verif)",
    "needs_to_manifest": notes.strip().split("\n")[0:12],
    "confirmed_by_me": {
        "how": "/verif/tools/confirm_mutant.sh in a fresh scratch worktree (removed afterwards)",
        "compiles": True,
        "pinned_baseline_38_tests_pass_with_change": True,
        "full_suite_with_change": "no failure other than the pre-existing test_command_names_secret (timing-flaky tests re-run)",
        "demo_fails_with_change": True,
        "demo_passes_without_change": True,
    },
    "checks_run_against_it": "git -C /repo apply patch.diff; ./check <ID> --tier quick; git -C /repo checkout -- .  (tools/run_mutant.sh)",
    "detected_by_quick_tier_of": detected,
    "not_detected_by": missed,
}
json.dump(meta, open(f"{d}/meta.json", "w"), indent=1)
print("packaged", mid)
