#!/bin/bash
# try_mutant_scratch.sh <patch.diff> <check ids...> [-- extra env like VERIF_ONLY_PART=x]
# Like run_mutant.sh but without touching /repo: scratch copy of /repo/src + SIRC_SRC + own target dir.
# XS_TARGET selects the target dir, XS_HARNESS a snapshot of /verif/harness (so that sources may be edited meanwhile).
set -u
P="$1"; shift
export CARGO_NET_OFFLINE=true RUST_BACKTRACE=0
W=/tmp/xs-$$; rm -rf $W; mkdir -p $W
cp -r /repo/src $W/src; cp /repo/config-example.toml /repo/Cargo.toml $W/
( cd $W && patch -s -p1 < "$P" ) || { echo "patch failed"; rm -rf $W; exit 2; }
( cd ${XS_HARNESS:-/verif/harness} && SIRC_SRC=$W/src CARGO_TARGET_DIR=${XS_TARGET:-/tmp/xs-target} cargo build --profile verif --offline 2>$W/build.log ) || { echo "build failed"; tail -5 $W/build.log; rm -rf $W; exit 2; }
for id in "$@"; do
  out=$(cd /verif && SIRC_VERIF_OUT=$W SIRC_EXAMPLE=$W/config-example.toml ${XS_TARGET:-/tmp/xs-target}/verif/sircverif check "$id" --tier quick 2>&1); rc=$?
  pred=$(echo "$out" | grep -m1 "predicate" | sed 's/.*predicate //' | cut -c1-200)
  if [ $rc -eq 1 ]; then echo "$id: DETECTED  $pred"; elif [ $rc -eq 0 ]; then echo "$id: missed"; else echo "$id: rc=$rc"; fi
done
rm -rf $W
