#!/bin/bash
# mutant_matrix.sh [ids...] - for every seeded mutant: scratch copy of /repo/src with the patch,
# harness built against it (SIRC_SRC, own target dir), all 20 quick checks; results to
# /verif/seeded/MATRIX.tsv.  Nothing under /repo or /verif/evidence is touched.
set -u
export CARGO_NET_OFFLINE=true RUST_BACKTRACE=0
ROOT=/tmp/xm; mkdir -p $ROOT
OUT=/verif/seeded/MATRIX.tsv
ids="${@:-$(ls /verif/seeded | grep -E '^C[0-9]+-m[0-9]+$')}"
[ -f $OUT ] || echo -e "mutant\tdetected_by\tmissed_by\terrors" > $OUT
for id in $ids; do
  W=$ROOT/$id; rm -rf $W; mkdir -p $W
  cp -r /repo/src $W/src; cp /repo/config-example.toml /repo/Cargo.toml $W/
  ( cd $W && patch -s -p1 < /verif/seeded/$id/patch.diff ) || { echo -e "$id\t\t\tpatch-failed" >> $OUT; continue; }
  ( cd /verif/harness && SIRC_SRC=$W/src CARGO_TARGET_DIR=$ROOT/target cargo build --profile verif --offline 2>$W/build.log ) || { echo -e "$id\t\t\tbuild-failed" >> $OUT; continue; }
  det=""; mis=""; err=""
  for c in C01 C02 C03 C04 C05 C06 C07 C08 C09 C10 C11 C12 C13 C14 C15 C16 C17 C18 C19 C20; do
    ( cd /verif && SIRC_VERIF_OUT=$W SIRC_EXAMPLE=$W/config-example.toml timeout 600 $ROOT/target/verif/sircverif check $c --tier quick >$W/$c.out 2>&1 ); rc=$?
    if [ $rc -eq 1 ]; then det="$det $c"; elif [ $rc -eq 0 ]; then mis="$mis $c"; else err="$err $c($rc)"; fi
  done
  grep -v "^$id	" $OUT > $OUT.tmp; mv $OUT.tmp $OUT
  echo -e "$id\t$det\t$mis\t$err" >> $OUT
  rm -rf $W/src
done
rm -rf $ROOT/target
echo done
