#!/bin/bash
# recheck_parallel.sh [N] - recheck_seeded.sh over all packaged changes in N shards (own target dirs)
N=${1:-4}
cd /verif
rm -rf /tmp/xr-harness; mkdir -p /tmp/xr-harness; cp -r harness/src harness/Cargo.toml harness/Cargo.lock harness/build.rs harness/.cargo /tmp/xr-harness/
export XS_HARNESS=/tmp/xr-harness
ids=($(ls seeded | grep -E '^C[0-9]+-'))
for k in $(seq 0 $((N-1))); do
  shard=()
  for i in "${!ids[@]}"; do [ $((i % N)) -eq $k ] && shard+=("${ids[$i]}"); done
  ( sed "s#XS_TARGET=/tmp/xr-target#XS_TARGET=/tmp/xr-target-$k#" tools/recheck_seeded.sh > /tmp/recheck_shard_$k.sh; bash /tmp/recheck_shard_$k.sh "${shard[@]}" > /tmp/recheck_shard_$k.log 2>&1 ) &
done
wait
cat /tmp/recheck_shard_*.log | sort > /tmp/recheck_all.log
grep -c " ok:" /tmp/recheck_all.log; grep -v " ok:" /tmp/recheck_all.log
rm -rf /tmp/xr-target-* /tmp/xr-harness
